"""C06 - segment layout is invisible: merge and optimize preserve all logical content.

Monitor shape: differential + reference model. One seeded program of document-level operations
(add group / delete group / delete child / update) is executed through several alternative
histories (partition into commits x merge choice per commit x codec block limit x compound flag x
storage kind); the canonical logical dump (vf.dump) of every history is compared with the dump of
the single-commit optimised build of the final live documents, and with the model where the model
can say something on its own (stored values, group structure, Nested* probe results, sorted order by a unique key).

Every BIG_EVERY-th case is a "big" case: the same kind of program over 24..40 documents that additionally carry a
unique sortable ID key of ~55..6000 bytes and (mostly) a stored text blob of 50 bytes..25 KB, so that a segment holding
most of the documents (the reference, an optimised or merged history) has variable-length per-document column streams
("_stored", the VarBytes sort column) of 100..200 KB - several times the in-memory buffer of the per-document writer -
with value sizes spread over two orders of magnitude, while the segments of small commits stay far below it. A reach
model of that buffer (spill_profile) feeds the c06.big.* counters; it judges nothing.
"""
import datetime
import os
import shutil
import tempfile

LEVEL = "exploration"
RULE = ("a case is one seeded corpus program (5..40 documents in groups of 1..4: parent + children, then deletions of "
        "whole groups / single children and updates of single-document groups, optionally a final remove_field) run "
        "through the reference build (final live documents, one commit, optimize=True) and 5 (quick) / 8 (thorough) "
        "alternative histories: random partition of the operations into commits (a delete/update is always committed "
        "after the add it targets), per commit merge choice {merge=False, default MERGE_SMALL, optimize=True, custom "
        "policy merging a random subset}, per commit W3Codec(blocklimit), compound on/off, Ram/File(mmap on/off) storage, "
        "writer front-end per add-only commit {SegmentWriter, BufferedWriter, MpWriter, MpWriter(multisegment)}. "
        "Every 7th case index is a 'big' case (extra values drawn from the separate stream ctx.rng(idx, 'big')): 24/32/40 documents, "
        "each with a unique sortable ID key 'skey' (mean 2.5..8 KB x {0.02..3}, capped at 6000 bytes) and, with p=0.85, a stored "
        "'blob' of poorly compressible text (same size law, uncapped), i.e. 100..200 KB per variable-length column stream of a "
        "segment that holds all documents against a few KB in a small commit's segment; big cases add the model check "
        "search(Every, sortedby=skey[, reverse]) == documents sorted by key, and count per layout whether a written segment's "
        "sort-column / stored stream passed the 32 KB writer buffer twice and whether a later refill was shorter than an earlier one. "
        "A history is non-trivial when it produced >=2 commits and either a multi-segment final layout or at least "
        "one physical merge; distinct = distinct (schema options, per-commit (merge kind, #ops, merged?) signature, "
        "final segment count, deletions present); opts include the big flag.")
ASSUMPTIONS = [
    "document order (doc numbers) is not part of the logical content: dumps are keyed by the stored unique key; only the relative order and adjacency of the members of one group is demanded",
    "terms whose every posting belongs to a deleted document stay in the lexicon until the segment is rewritten (the statement says optimising physically removes deleted documents): terms with an empty live posting list are dropped from both dumps before comparing",
    "collection statistics (doc_count_all, field lengths, term infos) and scores are compared only between layouts without physically present deleted documents (the statement's 'without deletions')",
    "score comparison tolerance 1e-9 relative (combined term weights are float sums in a different order)",
    "delete/update operations are committed in a later writer than the add they target (a writer cannot see its own uncommitted documents - documented)",
    "physical removal of a removed field after optimize is observed through indexed_field_names(), the raw per-document stored dict and the per-document reader's has_column (internal but the only place where physical presence is visible)",
    "only whole groups or child documents are deleted (a child whose parent was deleted has no defined parent); every document is a parent or a child, so Nested* results are defined by group membership alone",
    "front-ends: SegmentWriter for every kind of commit; BufferedWriter (one flush per commit), MpWriter(procs=2) and MpWriter(multisegment=True) for add-only commits of histories without a separate spelling field; after optimize a single segment is demanded except for MpWriter(multisegment=True), which documents that it keeps its sub-writers' segments",
    "separate spelling fields (spell_<field>) hold a word list posted on document 0 of each segment, not per-document postings: their postings/term statistics are not compared; their lexicon is compared between deletion-free layouts (strictly when the program has no deletions; with deletions see listed finding C06-spelling-wordlist-on-doc0, population B only)",
    "big cases: the sort key is unique among live documents and pure ASCII, so the order of a search sorted by it is fully defined (no ties, byte order == str order); only Every() is searched sorted (forward unlimited, reverse limit=3)",
    "big cases: the c06.big.* reach counters come from a harness-side model of the per-document writer's 32 KB stream buffer fed with the sort-key byte lengths (exact) and an estimate of the deflated pickled stored dict (zlib level 3 of the model's stored dict); they only gate 'held' through FLOORS and never produce a failure",
    "stored blobs are str values up to ~25 KB and sort keys single ID terms up to ~6 KB; larger values, non-str stored objects and more than 40 documents per corpus are not exercised",
    "population A keeps every scorable field length exactly representable by the one-byte length encoding (<=10 tokens); population B uses arbitrary lengths, where a merge re-adds byte-approximated lengths to the total field length (listed finding C06-merged-total-field-length)",
]
SHARDS = {"quick": 4, "thorough": 16}
BUDGET_S = {"quick": 80, "thorough": 700}
FLOORS = {"c06.cases": 40, "c06.histories": 200, "c06.dump.compares": 200, "c06.histories.merge_small_merged": 25,
          "c06.merge.with_deletions": 80, "c06.final.multisegment": 60, "c06.final.with_deletions": 15,
          "c06.stats.compares": 150, "c06.score.compares": 4000, "c06.probe.compares": 6000,
          "c06.optimize.checks": 60, "c06.optimize.removed_field_checks": 30, "c06.group.checks": 1500,
          "c06.nested.checks": 200, "c06.pop.A": 25, "c06.pop.B": 8,
          "c06.frontend.buffered": 40, "c06.frontend.mp": 10, "c06.frontend.mp-multi": 10,
          "c06.big.cases": 5, "c06.big.layouts": 30, "c06.sorted.checks": 30,
          "c06.big.sortcol_spilled_twice": 25, "c06.big.sortcol_shorter_refill": 16,
          "c06.big.stored_spilled_twice": 22, "c06.big.stored_shorter_refill": 16}

VOC = ["alfa", "bravo", "charlie", "delta", "echo", "foxtrot", "golf", "hotel", "india", "juliet", "kilo", "lima",
       "mike", "november", "oscar", "papa", "quebec", "romeo", "sierra", "tango", "uniform", "victor", "whiskey",
       "xray", "yankee", "zulu"]
ZW = [1.0 / (i + 1) for i in range(len(VOC))]
TAGS = ["red", "green", "blue", "cyan", "black"]
# big cases (every BIG_EVERY-th case index): per-document value sizes = case mean x one of these factors
BIG_EVERY = 7
BIG_FACTORS = [0.02, 0.1, 0.5, 1, 1, 2, 3]
MAX_KEY = 6000              # longest sortable key (one ID term)
KEY_ALPHA = "abcdefghijklmnopqrstuvwxyz0123456789"
BLOB_ALPHA = "abcdefghijklmnopqrstuvwxyzABCDEFGHIJKLMNOPQRSTUVWXYZ0123456789+/ .,;:-_()[]{}<>!?*#%&=@^~|$"   # deflates to ~0.8
SPILL_AT = 32 * 1024        # the per-document column streams of a segment are buffered in memory up to this size


def nfail(ctx):
    """Disagreements so far, not counting those recognised as a listed finding (they do not stop a case)."""
    return sum(v for k, v in ctx.counters.items() if k.startswith("fail:")) - ctx.counters.get("c06.known.total", 0)


def known(ctx, monitor, mech, w, detail):
    ctx.count("c06.known.total")
    ctx.fail(monitor, mech, w, detail)


def words(rng, n):
    return " ".join(rng.choices(VOC, ZW, k=n))


# ----------------------------------------------------------------------
# schema / corpus program
# ----------------------------------------------------------------------

def gen_opts(rng):
    return {
        "text_vector": rng.choice([None, "same", "positions", "frequency"]),
        "text_chars": rng.random() < 0.5,
        "text_sortable": rng.random() < 0.4,
        "tags_sortable": rng.random() < 0.5,
        "num_sortable": rng.random() < 0.7,
        "num_bits": rng.choice([16, 32, 64]),
        "date_sortable": rng.random() < 0.6,
        "fl_sortable": rng.random() < 0.5,
        "body_spelling": rng.random() < 0.5,
        "pop": "A" if rng.random() < 0.7 else "B",
        "big": False,
    }


def make_schema(opts, without=None):
    from whoosh import fields, formats, analysis
    vec = {None: None, "same": True, "positions": formats.Positions(), "frequency": formats.Frequency()}[opts["text_vector"]]
    sch = fields.Schema(
        id=fields.ID(stored=True, unique=True),
        kind=fields.ID(stored=True),
        kids=fields.ID(),
        grp=fields.ID(stored=True),
        text=fields.TEXT(stored=True, vector=vec, chars=opts["text_chars"], sortable=opts["text_sortable"]),
        body=fields.TEXT(analyzer=analysis.StemmingAnalyzer() if opts["body_spelling"] else None, spelling=opts["body_spelling"]),
        tags=fields.KEYWORD(stored=True, scorable=True, sortable=opts["tags_sortable"]),
        num=fields.NUMERIC(int, opts["num_bits"], stored=True, sortable=opts["num_sortable"]),
        fl=fields.NUMERIC(float, sortable=opts["fl_sortable"]),
        date=fields.DATETIME(stored=True, sortable=opts["date_sortable"]),
        flag=fields.BOOLEAN(stored=True),
        meta=fields.STORED(),
        ng=fields.NGRAMWORDS(minsize=2, maxsize=3),
    )
    sch.add("*_dyn", fields.KEYWORD(stored=True), glob=True)
    if opts.get("big"):
        # big cases: a unique sortable key of varying length (VarBytes column) and a stored blob of varying size
        sch.add("skey", fields.ID(sortable=True))
        sch.add("blob", fields.STORED())
    if without:
        sch.remove(without)
    return sch


def gen_doc(rng, key, kind, gid, opts, big=None):
    maxlen = 10 if opts["pop"] == "A" else rng.choice([10, 14, 40, 130])
    d = {"id": key, "kind": kind, "grp": gid}
    if rng.random() < 0.9:
        d["text"] = words(rng, rng.randint(0, maxlen))
        if rng.random() < 0.1:
            d["_text_boost"] = 2.0
    if rng.random() < 0.5:
        d["body"] = " ".join(rng.choices(VOC + ["running", "runs", "jumped", "cats"], ZW + [0.2] * 4, k=rng.randint(1, maxlen)))
    if rng.random() < 0.6:
        d["tags"] = " ".join(rng.sample(TAGS, rng.randint(1, 3)))
    if rng.random() < 0.7:
        lim = 2 ** (opts["num_bits"] - 1)
        d["num"] = rng.choice([rng.randint(-50, 50), rng.randint(-lim, lim - 1), -lim, lim - 1])
    if rng.random() < 0.4:
        d["fl"] = rng.choice([0.0, 1.5, -2.25, rng.uniform(-100, 100)])
    if rng.random() < 0.5:
        d["date"] = datetime.datetime(rng.randint(1990, 2030), rng.randint(1, 12), rng.randint(1, 28), rng.randint(0, 23),
                                      rng.randint(0, 59), rng.randint(0, 59), rng.choice([0, 1, 999999]))
    if rng.random() < 0.5:
        d["flag"] = rng.random() < 0.5
    if rng.random() < 0.4:
        d["meta"] = {"n": rng.randint(0, 9), "s": rng.choice(VOC)}
    if rng.random() < 0.4:
        # NGRAMWORDS is scorable: its length is the number of grams (2n-3 for one n-letter word)
        d["ng"] = rng.choice([v for v in VOC if len(v) <= 6]) if opts["pop"] == "A" else words(rng, rng.randint(1, 3))
    if rng.random() < 0.3:
        d[rng.choice(["a_dyn", "b_dyn"])] = " ".join(rng.sample(TAGS, 2))
    if rng.random() < 0.05:
        d["_boost"] = 1.5
    if big is not None:
        # drawn from the case's separate "big" stream: the rest of the document does not depend on it
        brng, mean = big
        n = int(mean * brng.choice(BIG_FACTORS))
        d["skey"] = "%s-%s" % ("".join(brng.choices(KEY_ALPHA, k=min(n, MAX_KEY))), key)     # unique among live documents
        if brng.random() < 0.85:
            n = int(mean * brng.choice(BIG_FACTORS))
            d["blob"] = "".join(brng.choices(BLOB_ALPHA, k=n))
    return d


def gen_program(rng, ctx, brng=None):
    """Returns (opts, ops, remove_field). ops are document-level operations over groups.
    brng: the separate random stream of a big case (None otherwise)."""
    opts = gen_opts(rng)
    ops = []
    groups = {}      # gid -> list of keys (live)
    singles = []     # gids of single-document groups (live)
    nkey = [0]
    ngid = [0]

    def newkey():
        nkey[0] += 1
        return "d%03d" % nkey[0]

    ndocs_target = rng.choice([5, 8, 12, 20, 30, 40])
    big = None
    if brng is not None:
        # big case: enough documents and value volume that the per-document column streams ("_stored", the VarBytes
        # sort column of skey) of a segment holding most of the documents pass the 32 KB in-memory buffer several times,
        # with value sizes spread over two orders of magnitude, while a segment of one small commit stays below it
        opts["big"] = True
        ndocs_target = brng.choice([24, 32, 40])
        big = (brng, brng.choice([100000, 140000, 200000]) // ndocs_target)
    deletions = rng.random() < 0.6
    if deletions and opts["pop"] == "A":
        # population A avoids the constructs behind the listed findings (separate spelling word list + deletions)
        opts["body_spelling"] = False
    while nkey[0] < ndocs_target:
        r = rng.random()
        live_gids = sorted(groups)
        if deletions and r < 0.12 and live_gids:
            gid = rng.choice(live_gids)
            ops.append(("delgroup", gid))
            del groups[gid]
            if gid in singles:
                singles.remove(gid)
        elif deletions and r < 0.2 and any(len(v) > 1 for v in groups.values()):
            # may delete the last child: the parent then becomes physically childless once a merge drops the child
            gid = rng.choice([g for g in live_gids if len(groups[g]) > 1])
            key = rng.choice(groups[gid][1:])
            groups[gid].remove(key)
            ops.append(("delchild", key))
        elif deletions and r < 0.3 and singles:
            gid = rng.choice(singles)
            key = groups[gid][0]
            ops.append(("update", gid, [gen_doc(rng, key, "parent", gid, opts, big)]))
        else:
            ngid[0] += 1
            gid = "g%03d" % ngid[0]
            size = rng.choice([1, 1, 2, 3, 4])
            docs = [gen_doc(rng, newkey(), "parent" if i == 0 else "child", gid, opts, big) for i in range(size)]
            if size > 1:
                docs[0]["kids"] = "y"
            ops.append(("group", gid, docs))
            groups[gid] = [d["id"] for d in docs]
            if size == 1:
                singles.append(gid)
    remove = rng.choice([None, None, None, "tags", "num", "body", "date"])
    return opts, ops, remove


def final_groups(ops):
    """Model: ordered list of (gid, [live docs]) after all operations (an update moves the group to its update time)."""
    groups = {}
    order = []
    for op in ops:
        if op[0] == "group" or op[0] == "update":
            gid = op[1]
            if gid in groups:
                order.remove(gid)
            groups[gid] = list(op[2])
            order.append(gid)
        elif op[0] == "delgroup":
            del groups[op[1]]
            order.remove(op[1])
        elif op[0] == "delchild":
            for gid, docs in groups.items():
                groups[gid] = [d for d in docs if d["id"] != op[1]]
    return [(gid, groups[gid]) for gid in order]


def strip(doc, remove):
    if not remove:
        return doc
    return {k: v for k, v in doc.items() if k != remove and k != "_%s_boost" % remove}


# ----------------------------------------------------------------------
# histories
# ----------------------------------------------------------------------

def plan_history(rng, ops, remove, style, frontends=("writer",)):
    """Partition ops into commits. Returns list of commit dicts."""
    commits = []
    cur = []
    added_here = set()
    p_cut = {"tiny": 0.9, "mixed": rng.choice([0.2, 0.4, 0.6]), "bulk": 0.08}[style]

    def close():
        if cur:
            commits.append({"ops": list(cur)})
            del cur[:]
            added_here.clear()
    for op in ops:
        target = None
        if op[0] in ("delgroup", "update"):
            target = op[1]
        elif op[0] == "delchild":
            target = op[1]
        if target is not None and target in added_here:
            close()
        cur.append(op)
        if op[0] == "group":
            added_here.add(op[1])
            for d in op[2]:
                added_here.add(d["id"])
        elif op[0] == "update":
            added_here.add(op[1])
            added_here.add(op[2][0]["id"])
        if rng.random() < p_cut:
            close()
    close()
    for i, c in enumerate(commits):
        if style == "tiny":
            c["merge"] = rng.choice(["nomerge", "nomerge", "nomerge", "default", "default", "custom"])
        else:
            c["merge"] = rng.choice(["nomerge", "default", "default", "optimize", "custom"])
        c["blocklimit"] = rng.choice([1, 2, 3, 16, 128])
        c["compound"] = rng.random() < 0.6
        c["picks"] = [rng.random() < 0.5 for _ in range(5)]
        c["frontend"] = "writer"
        if len(frontends) > 1 and all(op[0] == "group" for op in c["ops"]) and rng.random() < 0.12:
            c["frontend"] = rng.choice(frontends[1:])
            c["batch"] = rng.choice([1, 2, 3, 100])
    if remove:
        commits.append({"ops": [("remove_field", remove)], "merge": rng.choice(["nomerge", "default", "optimize", "optimize"]),
                        "blocklimit": 128, "compound": True, "picks": [True]})
    elif commits and rng.random() < 0.3:
        commits[-1]["merge"] = "optimize"
    return commits


def custom_policy(picks, merged_flag):
    def policy(writer, segments):
        from whoosh.reading import SegmentReader
        keep = []
        for i, seg in enumerate(segments):
            if picks[i % len(picks)]:
                r = SegmentReader(writer.storage, writer.schema, seg)
                writer.add_reader(r)
                r.close()
                merged_flag.append(seg)
            else:
                keep.append(seg)
        return keep
    return policy


def apply_op(w, op, remove_later=None):
    if op[0] == "group":
        with w.group():
            for d in op[2]:
                w.add_document(**d)
    elif op[0] == "update":
        w.update_document(**op[2][0])
    elif op[0] == "delgroup":
        w.delete_by_term("grp", op[1])
    elif op[0] == "delchild":
        w.delete_by_term("id", op[1])
    elif op[0] == "remove_field":
        w.remove_field(op[1])


def seg_map(ix):
    """(key -> segment id of the live document, segment id -> key of the document stored at docnum 0)."""
    m, first = {}, {}
    r = ix.reader()
    try:
        for lr, _ in r.leaf_readers():
            if lr.segment() is None:     # EmptyReader: the index has no segment at this point
                continue
            sid = lr.segment().segment_id()
            for dn in lr.all_doc_ids():
                m[lr.stored_fields(dn)["id"]] = sid
            if lr.doc_count_all() > 0 and not lr.is_deleted(0):
                first[sid] = lr.stored_fields(0)["id"]
    finally:
        r.close()
    return m, first


def model_lengths(doc):
    """Exact scorable field lengths of a document (controlled vocabulary: tokens == split())."""
    out = {}
    for f in ("text", "body", "tags"):
        if doc.get(f):
            out[f] = len(doc[f].split())
    if doc.get("ng"):
        n = 0
        for wd in doc["ng"].split():
            n += (len(wd) - 1 if len(wd) >= 2 else 0) + (len(wd) - 2 if len(wd) >= 3 else 0)
        out["ng"] = n
    return out


def model_stored(doc, remove=None):
    """The stored dict of a document according to the model."""
    return dict((k, v) for k, v in doc.items()
                if not (k.startswith("_") or k in ("body", "fl", "ng", "kids", "skey") or k == remove))


def stream_sizes(doc):
    """(bytes of the sort key, estimated bytes of the deflated pickled stored dict) one document appends to the two
    variable-length per-document column streams of the segment it is written to. Reach counters only."""
    import pickle
    import zlib
    return len(doc.get("skey", "").encode("utf8")), len(zlib.compress(pickle.dumps(model_stored(doc), 2), 3))


def spill_profile(sizes):
    """Reach model of one column stream of a segment: values are appended to an in-memory buffer that is flushed
    ("spilled") together with the value that makes it reach SPILL_AT. Returns (number of spills, whether some spill
    found the buffer shorter than it was at an earlier spill)."""
    buf, fills = 0, []
    for n in sizes:
        if buf + n >= SPILL_AT:
            fills.append(buf)
            buf = 0
        else:
            buf += n
    shorter = any(b < max(fills[:i]) for i, b in enumerate(fills) if i)
    return len(fills), shorter


def count_spills(reached, cache, docs_in_order):
    """reached: set of reach facts of one layout (history or reference), extended with what one written segment reaches.
    cache: per-case memo of stream_sizes by object identity of the document dict."""
    sizes = []
    for d in docs_in_order:
        if id(d) not in cache:
            cache[id(d)] = stream_sizes(d)
        sizes.append(cache[id(d)])
    for col, j in (("sortcol", 0), ("stored", 1)):
        n, shorter = spill_profile([sz[j] for sz in sizes])
        if n >= 2:
            reached.add("%s_spilled_twice" % col)
        if shorter:
            reached.add("%s_shorter_refill" % col)


def run_history(ctx, st, schema, commits, info):
    """Executes the commits on a fresh index in `st`. info collects layout facts."""
    from whoosh.codec.whoosh3 import W3Codec
    from whoosh.writing import BufferedWriter
    ix = st.create_index(schema)
    sig = []
    prev = {}
    info["rewritten"] = set()
    anchors, dead, version, members = {}, set(), {}, {}
    curdoc = {}      # key -> current version of the document (big cases: which values a written segment receives)
    info["reached"] = set()

    def uid(k):
        return "%s#%d" % (k, version.get(k, 0))
    for c in commits:
        before = ix._segments()
        before_ids = set(s.segment_id() for s in before)
        had_del = any(s.has_deletions() for s in before)
        kw = {}
        merged_flag = []
        if c["merge"] == "nomerge":
            kw = {"merge": False}
        elif c["merge"] == "optimize":
            kw = {"optimize": True}
        elif c["merge"] == "custom":
            kw = {"mergetype": custom_policy(c["picks"], merged_flag)}
        fe = c.get("frontend", "writer")
        ctx.count("c06.frontend.%s" % fe)
        wargs = {"codec": W3Codec(blocklimit=c["blocklimit"]), "compound": c["compound"]}
        if fe == "buffered":
            # adds only; the limit is never reached, so the buffered documents are flushed once, through add_reader()
            w = BufferedWriter(ix, period=None, limit=10 ** 6, writerargs=wargs, commitargs=kw)
            for op in c["ops"]:
                apply_op(w, op)
            had_del_now = any(s.has_deletions() for s in w.writer.segments)
            w.close()
        else:
            if fe in ("mp", "mp-multi"):
                w = ix.writer(procs=2, batchsize=c["batch"], multisegment=(fe == "mp-multi"), **wargs)
            else:
                w = ix.writer(**wargs)
            for op in c["ops"]:
                apply_op(w, op)
            had_del_now = any(s.has_deletions() for s in w.segments)
            w.commit(**kw)
        after = ix._segments()
        after_ids = set(s.segment_id() for s in after)
        gone = before_ids - after_ids
        merged = bool(gone)
        if merged:
            info["merges"] += 1
            ctx.count("c06.merge.%s" % c["merge"])
            if had_del_now:
                info["merges_with_deletions"] += 1
                ctx.count("c06.merge.with_deletions")
        ctx.count("c06.commits")
        sig.append((c["merge"], min(len(c["ops"]), 4), merged, fe))
        # which documents were physically rewritten by a merge (their stored length is the one-byte approximation)
        fresh = set()
        for op in c["ops"]:
            if op[0] in ("group", "update"):
                fresh.update(d["id"] for d in op[2])
        now, first = seg_map(ix)
        if info.get("big") is not None:
            # every segment this commit wrote (new documents and/or merged old ones) received the values of the
            # documents live in it now, in doc-number order (seg_map lists each leaf in that order)
            for op in c["ops"]:
                if op[0] in ("group", "update"):
                    curdoc.update((d["id"], d) for d in op[2])
            for sid in after_ids - before_ids:
                count_spills(info["reached"], info["big"], [curdoc[k] for k, s_ in now.items() if s_ == sid])
        for k, sid in now.items():
            if k in fresh:
                # the merging MpWriter copies even new documents through write_per_doc() from an on-disk sub-segment
                # (one-byte lengths); BufferedWriter copies them from the memory codec, which keeps exact lengths
                if fe == "mp":
                    info["rewritten"].add(k)
                else:
                    info["rewritten"].discard(k)
            elif k in prev and prev[k] != sid:
                info["rewritten"].add(k)
        prev = now
        # model of the separate spelling word list (listed finding C06-spelling-wordlist-on-doc0): the words of a
        # segment are posted on its document 0; a merge carries them over iff that document is live at merge time
        for op in c["ops"]:
            if op[0] == "update":
                dead.add(uid(op[2][0]["id"]))
                version[op[2][0]["id"]] = version.get(op[2][0]["id"], 0) + 1
            elif op[0] == "delgroup":
                dead.update(uid(k) for k in members.pop(op[1], []))
            elif op[0] == "delchild":
                dead.add(uid(op[1]))
                for g in members:
                    members[g] = [k for k in members[g] if k != op[1]]
            if op[0] in ("group", "update"):
                members[op[1]] = [d["id"] for d in op[2]]
        newsegs = after_ids - before_ids
        if newsegs:
            sid = sorted(newsegs)[0]
            anc = {}
            newdocs = [d for op in c["ops"] if op[0] in ("group", "update") for d in op[2]]
            if newdocs:
                # the writer's own documents come first: their words are posted on the first of them
                anc[uid(newdocs[0]["id"])] = set(wd for d in newdocs for wd in d.get("body", "").split())
            for g in gone:
                for a, ws in anchors.get(g, {}).items():
                    if a not in dead:
                        anc.setdefault(a, set()).update(ws)
            anchors[sid] = anc
        for g in gone:
            anchors.pop(g, None)
        if os.environ.get("C06_DEBUG"):
            rr = ix.reader()
            for lr, _ in rr.leaf_readers():
                if lr.segment() is None:
                    continue
                sid = lr.segment().segment_id()
                act = sorted(t.decode() for f, t in lr.all_terms() if f == "spell_body")
                mod = sorted(set().union(*anchors.get(sid, {}).values())) if anchors.get(sid) else []
                print("commit", c["merge"], "seg", sid[-6:], "model==actual", mod == act, "actual-only", sorted(set(act) - set(mod)), "model-only", sorted(set(mod) - set(act)))
            rr.close()
    allw = set()
    for anc in anchors.values():
        for ws in anc.values():
            allw.update(ws)
    info["spell_expected"] = sorted("spell_body:%r" % wd.encode("utf8") for wd in allw)
    info["sig"] = tuple(sig)
    info["segments"] = len(ix._segments())
    return ix


# ----------------------------------------------------------------------
# observation
# ----------------------------------------------------------------------

def make_probes(rng, remove=None):
    from whoosh import query
    w1, w2, w3 = rng.sample(VOC[:8], 3)
    rare = rng.choice(VOC[8:])
    lo = rng.randint(-60, 0)
    parents = query.Term("kind", "parent")
    probes = [
        ("term", query.Term("text", w1)),
        ("term-rare", query.Term("text", rare)),
        ("and", query.And([query.Term("text", w1), query.Term("text", w2)])),
        ("or", query.Or([query.Term("text", w2), query.Term("text", w3), query.Term("body", w1)])),
        ("phrase", query.Phrase("text", [w1, w2])),
        ("phrase-slop", query.Phrase("text", [w2, w3], slop=2)),
        ("tags", query.Term("tags", rng.choice(TAGS))),
        ("numrange", query.NumericRange("num", lo, lo + rng.randint(0, 80))),
        ("every", query.Every()),
        ("andnot", query.AndNot(query.Term("text", w1), query.Term("text", w2))),
        ("nested-parent", query.NestedParent(parents, query.And([query.Term("kind", "child"), query.Term("text", w1)]))),
        ("nested-children", query.NestedChildren(parents, query.And([parents, query.Term("text", w2)]))),
    ]
    if remove:
        probes = [(n, q) for n, q in probes if remove not in [f for f, _ in q.iter_all_terms()] and not (remove == "num" and n == "numrange")]
    return probes, (w1, w2, w3)


def observe(ctx, ix, probes, removed=None):
    """Returns a dict with the canonical dump, stats, probe results, group layout."""
    from vf import dump
    from whoosh import scoring, query
    out = {}
    with ix.searcher() as s:
        r = s.reader()
        d = dump.dump(r, keyfield="id", columns=False)
        out["order"] = d.pop("keys_in_doc_order")
        # separate spelling fields hold a word list posted on document 0 of each segment, not document postings
        out["spell_words"] = sorted(t for t in d["terms"] if t.startswith("spell_"))
        d["terms"] = dict((t, pl) for t, pl in d["terms"].items() if pl and not t.startswith("spell_"))
        cols = {}
        docnums = list(r.all_doc_ids())
        keys = {dn: r.stored_fields(dn).get("id") for dn in docnums}
        for fname, field in r.schema.items():
            if field.column_type is not None and "*" not in fname:
                cr = r.column_reader(fname)
                cols[fname] = dict((keys[dn], _nn(cr[dn])) for dn in docnums)
        d["columns"] = cols
        out["dump"] = d
        out["docnums"] = dict((keys[dn], dn) for dn in docnums)
        out["deleted_between"] = lambda a, b: all(r.is_deleted(x) for x in range(a + 1, b))
        out["has_deletions"] = r.has_deletions()
        out["doc_count_all"] = r.doc_count_all()
        out["doc_count"] = r.doc_count()
        out["segments"] = len(r.leaf_readers()) if not r.is_atomic() else 1
        # group adjacency: computed while the reader is open
        gaps = []
        bygrp = {}
        for dn in docnums:
            sf = r.stored_fields(dn)
            bygrp.setdefault(sf.get("grp"), []).append((dn, sf.get("id")))
        for gid, members in bygrp.items():
            dns = [m[0] for m in members]
            for a, b in zip(dns, dns[1:]):
                if not all(r.is_deleted(x) for x in range(a + 1, b)):
                    gaps.append((gid, a, b))
        out["group_members"] = dict((gid, [m[1] for m in members]) for gid, members in bygrp.items())
        out["group_gaps"] = gaps
        if not out["has_deletions"]:
            st_ = dump.stats(r)
            st_["terms"] = dict((t, v) for t, v in st_["terms"].items() if not t.startswith("spell_"))
            out["stats"] = st_
        out["indexed_fields"] = sorted(r.indexed_field_names())
        if "skey" in r.schema.names():
            # big cases: the sort key is unique among live documents, so the sorted order is fully defined by the column
            out["sorted_skey"] = [keys[h.docnum] for h in s.search(query.Every(), sortedby="skey", limit=None)]
            out["sorted_skey_rev_top"] = [keys[h.docnum] for h in s.search(query.Every(), sortedby="skey", reverse=True, limit=3)]
        if removed:
            phys = {"stored": 0, "column": 0}
            for lr, _ in r.leaf_readers():
                pd = getattr(lr, "_perdoc", None)
                if pd is None:
                    continue
                for dn in lr.all_doc_ids():
                    if removed in pd.stored_fields(dn):
                        phys["stored"] += 1
                if pd.has_column(removed) or pd.has_column("_%s_len" % removed):
                    phys["column"] += 1
            out["removed_physical"] = phys
        res = {}
        for wname, wm in (("bm25f", None), ("tfidf", scoring.TF_IDF()), ("freq", scoring.Frequency())):
            s2 = s if wm is None else ix.searcher(weighting=wm)
            try:
                for name, q in probes:
                    hits = s2.search(q, limit=None)
                    res[(wname, name)] = dict((s2.stored_fields(h.docnum).get("id"), h.score) for h in hits)
                    ctx.count("c06.probe.searches")
                    # layout-independent self-consistency: what a limited search returns must be among the documents
                    # the unlimited search of the SAME index returns (a physically present deleted document must not
                    # come back when the top-N collector skips to its posting block)
                    alld = set(h.docnum for h in hits)
                    lim = [h.docnum for h in s2.search(q, limit=2)]
                    ctx.count("c06.probe.limited_searches")
                    if not set(lim) <= alld or len(lim) != min(2, len(alld)):
                        out.setdefault("limited_bad", []).append((wname, name, lim, sorted(alld)[:20]))
            finally:
                if s2 is not s:
                    s2.close()
        out["results"] = res
    return out


def model_expectations(groups, probewords, remove):
    """What the model alone can say: stored dicts, group membership/order, Nested* result sets."""
    w1, w2, w3 = probewords
    stored = {}
    members = {}
    nparent, nchildren = set(), set()
    for gid, docs in groups:
        members[gid] = [d["id"] for d in docs]
        for d in docs:
            stored[d["id"]] = model_stored(d, remove)
        parent = docs[0] if docs and docs[0]["kind"] == "parent" else None
        if parent is None:
            continue
        if any(d["kind"] == "child" and w1 in d.get("text", "").split() for d in docs):
            nparent.add(parent["id"])
        if w2 in parent.get("text", "").split():
            nchildren.update(d["id"] for d in docs if d["kind"] == "child")
    return stored, members, nparent, nchildren


def _nn(v):
    return "NaN" if isinstance(v, float) and v != v else v


def approx_len(n):
    from whoosh.util.numeric import length_to_byte, byte_to_length
    return byte_to_length(length_to_byte(n))


def close_scores(a, b):
    if set(a) != set(b):
        return False
    for k in a:
        x, y = a[k], b[k]
        if x != y and abs(x - y) > 1e-9 * max(abs(x), abs(y), 1e-30):
            return False
    return True


# ----------------------------------------------------------------------
# the case
# ----------------------------------------------------------------------

def one_case(ctx, rng, idx):
    from vf import dump
    from whoosh.filedb.filestore import RamStorage, FileStorage
    big = idx % BIG_EVERY == 0
    opts, ops, remove = gen_program(rng, ctx, ctx.rng(idx, "big") if big else None)
    groups = final_groups(ops)
    if not groups:
        ctx.count("c06.cases.everything_deleted")
        return ("empty",), False, {"program": "every document deleted"}
    probes, pw = make_probes(rng, remove)
    schema_final = make_schema(opts, without=remove)
    exp_stored, exp_members, exp_nparent, exp_nchildren = model_expectations(groups, pw, remove)
    exp_sorted = None
    sizes_cache = {}
    if big:
        exp_sorted = [d["id"] for d in sorted((d for _, docs in groups for d in docs), key=lambda d: d["skey"])]
        ctx.count("c06.big.cases")
    has_deletes = any(op[0] != "group" for op in ops)
    base_w = {"options": opts, "remove_field": remove, "ndocs_final": len(exp_stored),
              "program": [(op[0], op[1] if op[0] != "group" else [d["id"] for d in op[2]]) for op in ops][:40]}
    ctx.count("c06.cases")
    ctx.count("c06.pop.%s" % opts["pop"])
    if has_deletes:
        ctx.count("c06.cases.with_deletes")
    tmpdirs = []

    def storage(kind):
        if kind == "ram":
            return RamStorage()
        d = tempfile.mkdtemp(prefix="vf-c06-")
        tmpdirs.append(d)
        return FileStorage(d, supports_mmap=(kind == "mmap"))

    try:
        # ---- reference: final live documents, one commit, optimised
        ref = {}

        def build_ref():
            st = storage("ram")
            ix = st.create_index(schema_final)
            w = ix.writer()
            for gid, docs in groups:
                with w.group():
                    for d in docs:
                        w.add_document(**strip(d, remove))
            w.commit(optimize=True)
            ref.update(observe(ctx, ix, probes))
            if big:
                reached = set()
                count_spills(reached, sizes_cache, [d for _, docs in groups for d in docs])
                ctx.count("c06.big.layouts")
                for fact in reached:
                    ctx.count("c06.big.%s" % fact)
        ok, _ = ctx.guard("c06.reference", dict(base_w, history="reference"), build_ref)
        if not ok:
            return ("ref-failed",), False, base_w
        # the reference itself against the model
        if not _check_model(ctx, base_w, "reference", ref, exp_stored, exp_members, exp_nparent, exp_nchildren, exp_sorted):
            return ("ref-vs-model",), False, base_w
        # ---- alternative histories
        nh = ctx.pick(5, 8)
        shapes = []
        for h in range(nh):
            style = rng.choice(["tiny", "mixed", "mixed", "bulk"])
            kind = rng.choice(["ram", "ram", "file", "mmap"])
            fes = ("writer",)
            if not opts["body_spelling"]:
                # other front-ends only without a separate spelling word list (its doc-0 model assumes one new segment)
                fes = ("writer", "buffered") if kind == "ram" else ("writer", "buffered", "mp", "mp-multi")
            commits = plan_history(rng, ops, remove, style, fes)
            info = {"merges": 0, "merges_with_deletions": 0, "big": sizes_cache if big else None}
            w = dict(base_w, history=[{"merge": c["merge"], "blocklimit": c["blocklimit"], "compound": c["compound"], "frontend": c.get("frontend", "writer"),
                                       "ops": [(op[0], op[1] if op[0] != "group" else [d["id"] for d in op[2]]) for op in c["ops"]]}
                                      for c in commits][:30], storage=kind, style=style)
            obs = {}

            def body():
                st = storage(kind)
                ix = run_history(ctx, st, make_schema(opts), commits, info)
                # every second alternative layout is searched with a small buffer part size of the array union matcher
                # (what a 3-clause Or does on a segment beyond 2048 documents happens on these small ones too)
                from vf import model as _model
                psz = (2, 5, 16, 64)[(h // 2) % 4] if h % 2 == 1 else None
                if psz is not None:
                    ctx.count("c06.small_array_parts")
                    w["array_partsize(default of ArrayUnionMatcher)"] = psz
                with _model.array_partsize(psz):
                    obs.update(observe(ctx, ix, probes, removed=remove))
                ix.close()
            ctx.count("c06.histories")
            ok, _ = ctx.guard("c06.history", w, body)
            if big:
                ctx.count("c06.big.layouts")
                for fact in info.get("reached", ()):
                    ctx.count("c06.big.%s" % fact)
            if not ok:
                break
            w["final_segments"] = obs["segments"]
            ctx.count("c06.final.multisegment" if obs["segments"] > 1 else "c06.final.onesegment")
            if obs["has_deletions"]:
                ctx.count("c06.final.with_deletions")
            if info["merges"]:
                ctx.count("c06.histories.merged")
            if any(c["merge"] == "default" and m for (c, (_, _, m, _fe)) in zip(commits, info["sig"])):
                ctx.count("c06.histories.merge_small_merged")
            nontrivial = len(commits) >= 2 and (obs["segments"] > 1 or info["merges"] > 0)
            shapes.append((info["sig"], obs["segments"], obs["has_deletions"], nontrivial))
            nf0 = nfail(ctx)
            lastopt = commits[-1]["merge"] == "optimize"
            # (1) logical dump
            ctx.count("c06.dump.compares")
            if obs["dump"] != ref["dump"]:
                diffs = dump.diff(ref["dump"], obs["dump"], limit=4)
                for first_sect in ("doc_count", "stored"):
                    if ref["dump"][first_sect] != obs["dump"][first_sect]:
                        diffs = dump.diff({first_sect: ref["dump"][first_sect]}, {first_sect: obs["dump"][first_sect]}, limit=4)
                        break
                sect = diffs[0].split("/")[1].split(":")[0] if diffs and "/" in diffs[0] else "?"
                sub = diffs[0].split("/")[2].split(":")[0] if sect in ("lengths", "columns", "vectors") and diffs[0].count("/") >= 2 else ""
                ctx.fail("c06.dump", "dump.%s%s" % (sect, (":" + sub) if sub else ""), w, "reference (left) vs history (right): " + " || ".join(diffs))
            # (1b) limited searches return only documents the unlimited search of the same index returns
            if obs.get("limited_bad"):
                wn, pn, lim, alld = obs["limited_bad"][0]
                ctx.fail("c06.limited", "limited-hit-outside-unlimited-result:%s" % pn, dict(w, probe=pn, weighting=wn),
                         "search(limit=2) returned doc numbers %r, search(limit=None) %r" % (lim, alld))
            # (2) model
            if nfail(ctx) == nf0:
                _check_model(ctx, w, "history", obs, exp_stored, exp_members, exp_nparent, exp_nchildren, exp_sorted)
            # (3) result sets of the probe queries (always), scores + statistics (no physically deleted docs)
            if nfail(ctx) == nf0:
                for key, refres in ref["results"].items():
                    got = obs["results"][key]
                    ctx.count("c06.probe.compares")
                    if set(got) != set(refres):
                        ctx.fail("c06.results", "resultset:%s" % key[1], dict(w, probe=key[1], weighting=key[0]),
                                 "reference %s history %s" % (sorted(refres), sorted(got)))
                        break
            if nfail(ctx) == nf0 and not obs["has_deletions"]:
                ctx.count("c06.stats.compares")
                if obs["spell_words"] != ref["spell_words"] and remove != "body":
                    only_h = sorted(set(obs["spell_words"]) - set(ref["spell_words"]))
                    only_r = sorted(set(ref["spell_words"]) - set(obs["spell_words"]))
                    if has_deletes and opts["pop"] == "B" and obs["spell_words"] == info["spell_expected"]:
                        ctx.count("c06.known.spelling_wordlist")
                        known(ctx, "c06.dump", "known:spelling-wordlist-on-doc0", w, "only in history %s, only in reference %s" % (only_h[:10], only_r[:10]))
                    else:
                        ctx.fail("c06.dump", "spelling-lexicon", w, "only in history %s, only in reference %s; mechanism model expects %s" % (
                            only_h[:10], only_r[:10], sorted(set(info["spell_expected"]) ^ set(ref["spell_words"]))[:10]))
                if obs["stats"] != ref["stats"]:
                    diffs = dump.diff(ref["stats"], obs["stats"], limit=4)
                    mech = "stats." + (diffs[0].split("/")[1].split(":")[0] if diffs else "?")
                    if opts["pop"] == "B" and _only_total_lengths_differ(ref["stats"], obs["stats"]) and _totals_explained(obs["stats"], groups, info["rewritten"], remove):
                        # second oracle: the totals are exactly "exact length of never-merged documents + one-byte
                        # approximation of the length of every document a merge rewrote"
                        ctx.count("c06.known.total_length")
                        known(ctx, "c06.stats", "known:merged-total-field-length", dict(w, rewritten=sorted(info["rewritten"])[:20]), " || ".join(diffs))
                    else:
                        ctx.fail("c06.stats", mech, w, "reference (left) vs history (right): " + " || ".join(diffs))
                else:
                    for key, refres in ref["results"].items():
                        got = obs["results"][key]
                        ctx.count("c06.score.compares")
                        if not close_scores(got, refres):
                            bad = [k for k in refres if abs(refres[k] - got[k]) > 1e-9 * max(abs(refres[k]), 1e-30)][:3]
                            ctx.fail("c06.scores", "scores:%s:%s" % key, dict(w, probe=key[1], weighting=key[0]),
                                     "docs %s: reference %s history %s" % (bad, [refres[k] for k in bad], [got[k] for k in bad]))
                            break
            # (4) optimize leaves nothing behind
            if nfail(ctx) == nf0 and lastopt:
                ctx.count("c06.optimize.checks")
                # MpWriter(multisegment=True) keeps its sub-writers' segments by design: only the single-segment
                # outcome of the other front-ends is documented ("merge all segments into a single segment")
                one_seg = obs["segments"] == 1 or commits[-1].get("frontend") == "mp-multi"
                if obs["doc_count_all"] != obs["doc_count"] or obs["has_deletions"] or not one_seg:
                    ctx.fail("c06.optimize", "deleted-docs-left", w, "doc_count_all=%d doc_count=%d has_deletions=%s segments=%d" % (
                        obs["doc_count_all"], obs["doc_count"], obs["has_deletions"], obs["segments"]))
                if remove:
                    ctx.count("c06.optimize.removed_field_checks")
                    if remove in obs["indexed_fields"]:
                        ctx.fail("c06.optimize", "removed-field-terms-left", w, "indexed_field_names still lists %r" % remove)
                    ph = obs.get("removed_physical") or {}
                    if ph.get("stored"):
                        ctx.fail("c06.optimize", "removed-field-stored-left", w, "%d documents still store %r" % (ph["stored"], remove))
                    if ph.get("column"):
                        ctx.fail("c06.optimize", "removed-field-column-left", w, "a column file of %r survived optimize" % remove)
            if nfail(ctx) != nf0:
                break
        tmp = [s for s in shapes if s[3]]
        shape = ("c06", tuple(sorted(opts.items())), tuple(s[:3] for s in shapes))
        return shape, bool(tmp), dict(base_w, histories=[s[0] for s in shapes][:3])
    finally:
        for d in tmpdirs:
            shutil.rmtree(d, ignore_errors=True)


def _only_total_lengths_differ(a, b):
    if a["doc_count_all"] != b["doc_count_all"] or a["terms"] != b["terms"]:
        return False
    for f in set(a["fields"]) | set(b["fields"]):
        fa, fb = a["fields"].get(f), b["fields"].get(f)
        if fa is None or fb is None or tuple(fa[1:]) != tuple(fb[1:]):
            return False
    return True


def _totals_explained(stats, groups, rewritten, remove):
    exp = {}
    for gid, docs in groups:
        for d in docs:
            for f, n in model_lengths(d).items():
                if f == remove:
                    continue
                exp[f] = exp.get(f, 0) + (approx_len(n) if d["id"] in rewritten else n)
    for f, tup in stats["fields"].items():
        if f in ("text", "body", "tags", "ng") and tup[0] != exp.get(f, 0):
            return False
    return True


def _short(x, n=400):
    r = repr(x)
    return r if len(r) <= n else r[:n] + "...(%d chars)" % len(r)


def _check_model(ctx, w, which, obs, exp_stored, exp_members, exp_nparent, exp_nchildren, exp_sorted=None):
    nf0 = nfail(ctx)
    ctx.count("c06.model.checks")
    stored = obs["dump"]["stored"]
    if set(stored) != set(exp_stored):
        ctx.fail("c06.model", "%s:live-docs" % which, w, "live keys %s expected %s" % (sorted(stored)[:30], sorted(exp_stored)[:30]))
        return False
    for k in stored:
        if stored[k] != exp_stored[k]:
            bad = sorted(f for f in set(stored[k]) | set(exp_stored[k]) if stored[k].get(f) != exp_stored[k].get(f))
            ctx.fail("c06.model", "%s:stored" % which, dict(w, doc=k), "fields %s: got %s expected %s" % (
                bad, _short(dict((f, stored[k].get(f)) for f in bad)), _short(dict((f, exp_stored[k].get(f)) for f in bad))))
            return False
    # groups: members in order, adjacent
    for gid, members in exp_members.items():
        got = obs["group_members"].get(gid, [])
        ctx.count("c06.group.checks")
        if got != members:
            ctx.fail("c06.groups", "%s:group-order" % which, dict(w, group=gid), "doc-number order of group members %s expected %s" % (got, members))
            return False
    if obs["group_gaps"]:
        ctx.fail("c06.groups", "%s:group-split" % which, w, "live foreign documents between members: %s" % (obs["group_gaps"][:3],))
        return False
    if exp_sorted is not None:
        # the order of a search sorted by the unique sort key is defined by the documents alone
        ctx.count("c06.sorted.checks")
        if obs["sorted_skey"] != exp_sorted:
            pos = next((i for i, (a, b) in enumerate(zip(obs["sorted_skey"], exp_sorted)) if a != b), min(len(exp_sorted), len(obs["sorted_skey"])))
            ctx.fail("c06.sorted", "%s:sortedby-skey" % which, w, "search(Every, sortedby=skey) differs from the model from position %d: got %s expected %s" % (
                pos, obs["sorted_skey"][pos:pos + 6], exp_sorted[pos:pos + 6]))
            return False
        if obs["sorted_skey_rev_top"] != exp_sorted[::-1][:3]:
            ctx.fail("c06.sorted", "%s:sortedby-skey-reverse-top3" % which, w, "got %s expected %s" % (obs["sorted_skey_rev_top"], exp_sorted[::-1][:3]))
            return False
    for wname in ("bm25f",):
        got = set(obs["results"][(wname, "nested-parent")])
        ctx.count("c06.nested.checks")
        if got != exp_nparent:
            ctx.fail("c06.groups", "%s:NestedParent" % which, w, "got %s expected %s" % (sorted(got), sorted(exp_nparent)))
            return False
        got = set(obs["results"][(wname, "nested-children")])
        if got != exp_nchildren:
            ctx.fail("c06.groups", "%s:NestedChildren" % which, w, "got %s expected %s" % (sorted(got), sorted(exp_nchildren)))
            return False
    return nfail(ctx) == nf0


def run(ctx):
    for idx in ctx.cases(quick=30, thorough=90):
        rng = ctx.rng(idx)
        ctx.reseed_global(idx)
        shape, nontrivial, w = one_case(ctx, rng, idx)
        ctx.case(shape, nontrivial, sample=w if idx % 7 == 0 else None)
