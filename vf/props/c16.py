"""C16 - the query parser accepts any input and honours the documented language.

Two monitors, both running the real parser and the real searcher:

(1) totality   grammar-aware token-soup strings x parser configurations.  Oracle = exception types:
               parse() returns a whoosh.query.Query or raises whoosh.qparser.QueryParserError;
               searching the result raises at most whoosh.query.QueryError.
(2) language   an *intended tree* is generated first, rendered to the documented syntax
               (docs/source/querylang.rst, parsing.rst), parsed, and the documents matched by
               the parsed query are compared with the documents the intended reading selects
               (a) according to an independent Python-set evaluator over the corpus and
               (b) according to the same tree built directly from whoosh.query objects and run
               through the same engine.
"""
import datetime
import fnmatch

LEVEL = "exploration"
RULE = ("(soup) a case is one generated string - 1..10 atoms drawn from operators, brackets, quotes, colons, carets, "
        "tildes, range pieces, wildcards, comparison signs, field prefixes of every field type (text, keyword, id, "
        "int/float/decimal numeric, datetime, boolean, ngram, ngramwords, stored-only, unknown, pseudo, alias), numbers, "
        "dates and date-parser phrases, unicode and control characters; or nested groups up to 60 deep (population B: "
        "1000 deep); or a rendered well-formed expression damaged by character edits; 4% of the latin-1 strings are "
        "passed as bytes - parsed under the 9 main shipped configurations and a random half of 12 variants "
        "(21 in all: default, OrGroup, OrGroup.factory, Multifield x3, Simple, DisMax x2, all optional plugins, "
        "free dates + PlusMinus + GtLt + Fuzzy + Regex, Sequence, Prefix, keep-unknown-fields, symbol operators, "
        "Variations term class, bare, no-fields-no-operators, schema=None) and searched on two indexes; non-trivial "
        "when the string contains at least one syntax atom; distinct = distinct sequence of atom classes. (language) a "
        "case is one intended tree (leaves: term, single-quoted term, phrase with slop, prefix, wildcard, text/numeric/"
        "date range, comparison, numeric/date/boolean/id term; inner: NOT, AND, OR, ANDNOT, ANDMAYBE, REQUIRE, implicit "
        "group, parentheses, field group, field alias, boost) x one of 8 parser configurations (incl. the symbol "
        "operators of parsing.rst) or a +/-/phrase expression for SimpleParser/DisMaxParser; a disagreement is shrunk "
        "(sub-trees, dropped children) while it persists; non-trivial when the intended result set is neither empty nor "
        "the whole corpus; distinct = distinct (configuration, type tree of the intended expression).")
ASSUMPTIONS = [
    "totality searches run on a single-segment index without deletions (search(limit=None), search(limit=3)) and on a "
    "three-segment index with deleted documents (same two calls); only exception types are judged there, result sets "
    "are compared in the language monitor on the first index",
    "QueryParser(schema=None) is documented as 'usually for testing purposes' (the text is neither analysed nor "
    "validated against field types): its parse() is monitored for totality but its queries are not run",
    "fuzzy edit distances in generated strings are <= 4 (FuzzyTermPlugin documents that distances greater than 2 "
    "'can take an extremely long time'; ~9 on a 20-character word took 9 minutes in the pilot: slow, not a crash)",
    "language: parsed and intended queries are compared as *document sets* on one corpus (single segment, no deletions, "
    "docs_for_query); scores and boost values are not compared (a boost only has to leave the selected set unchanged)",
    "language oracle: a case fails only when the parsed query's documents differ from BOTH the independent Python-set "
    "reading and the same intended tree built from whoosh.query objects run through the same engine; where those two "
    "disagree with each other (an engine defect, other properties) the case is counted in lang.engine_vs_model and "
    "either answer is accepted",
    "language population A keeps constructs that normalize() (applied by parse()) is known to rewrite with a change "
    "of meaning (property C15) out of the expression: no `*:*`, no `field:*`, no empty/inverted ranges, at most one "
    "range per effective field per expression (field groups, aliases and multi-field defaults resolved); population B "
    "(lang.popB, ~6%) allows several ranges on one multi-valued field and classifies a disagreement that disappears "
    "with parse(normalize=False) and shows two ranges of one field inside an And as the C15 mechanism "
    "(known:c15-and-range-intersect-merge)",
    "NOT is applied to one atom or one parenthesised group (never NOT NOT x); a chain of the *same* binary operator "
    "(a ANDNOT b ANDNOT c) is read left-associatively as documented in parsing.rst ('By default, infix operators are "
    "left-associative'); different binary operators are always parenthesised when nested, as the statement requires",
    "vocabulary of the language corpus is lowercase ASCII words that the shipped analyzers map to themselves and that "
    "are not stop words (analysis agreement is C17's subject); the words do include the letters 'to', 'or', 'and', "
    "'not' as substrings; a range bound spelled exactly 'to' is not generated bare (ambiguous with the separator; the "
    "parser's own tests quote it)",
    "date terms use the documented YYYY[MM[DD[hh]]] forms of the DATETIME field; with the DateParserPlugin only a year "
    "or YYYYMMDD, and ranges only between fully specified days (the plugin fills unspecified parts of one end from "
    "the other end/base date by design); date ranges are closed and inclusive (dates.rst: open-ended ranges not "
    "supported; no reading documented for exclusive brackets around partial dates)",
    "comparison signs (GtLtPlugin) are generated for numeric and keyword fields, not for dates; a single-quoted term "
    "or a comparison is not boosted directly (no documented syntax)",
    "SimpleParser/DisMaxParser language: '+w' required, '-w' prohibited, bare words/phrases optional (flat OR) as "
    "documented for PlusMinusPlugin; an expression with only prohibited words is not generated (no documented reading)",
    "nesting depth of generated strings is <= 60 in population A (about 8 interpreter frames are used per nesting "
    "level, so real groups nested ~120 deep already reach the default recursion limit of 1000); population B (soup: ~0.3% of strings) nests 1000 "
    "groups, where the parser's recursive filters exceed the interpreter's recursion limit: a "
    "RecursionError there is classified as the listed finding known:recursion-limit-on-deep-nesting, anywhere else "
    "it is a violation; every case is bounded (<= ~3000 characters) and a hang is turned into inconclusive by the "
    "framework's shard watchdog, not into a verdict",
]
SHARDS = {"quick": 4, "thorough": 16}
BUDGET_S = {"quick": 90, "thorough": 700}
FLOORS = {"soup.strings": 330, "soup.parses": 4700, "soup.searches": 17000, "soup.inband_errors": 650,
          "soup.config.default": 330, "soup.config.allplugins": 330, "soup.config.dismax": 330,
          "soup.config.simple": 330, "soup.config.multi": 330, "soup.config.or": 330,
          "lang.cases": 400, "lang.nontrivial": 230, "lang.agree": 400, "simple.cases": 55, "lang.index2_evals": 400}

VOCAB = ["alfa", "bravo", "charlie", "delta", "echo", "foxtrot", "golf", "hotel", "india", "juliet",
         "kilo", "lima", "tomato", "victor", "stop", "orbit", "band", "notes"]
KVOCAB = ["red", "green", "blue", "cyan", "toto", "amber", "mango"]
NDOCS = 48


# ----------------------------------------------------------------------
# corpus / index (built once per worker process)
# ----------------------------------------------------------------------

class World(object):
    pass


def build_world(ctx):
    import random
    from decimal import Decimal
    from whoosh import fields, analysis
    from whoosh.filedb.filestore import RamStorage

    rng = random.Random("C16:%d:%d:corpus" % (ctx.seed, ctx.shard))   # one corpus per shard: data-dependent mechanisms get 4 (16) chances
    schema = fields.Schema(
        id=fields.ID(stored=True, unique=True),
        t=fields.TEXT(stored=True),
        t2=fields.TEXT(analyzer=analysis.SimpleAnalyzer()),
        tp=fields.TEXT(multitoken_query="phrase"),
        to=fields.TEXT(multitoken_query="or", phrase=False),
        ts=fields.TEXT(analyzer=analysis.StemmingAnalyzer(), spelling=True),
        k=fields.KEYWORD(lowercase=True),
        kc=fields.KEYWORD(commas=True, scorable=True),
        il=fields.IDLIST(),
        n=fields.NUMERIC(int),
        u8=fields.NUMERIC(int, bits=8, signed=False),
        f=fields.NUMERIC(float),
        dc=fields.NUMERIC(Decimal, decimal_places=2),
        d=fields.DATETIME(),
        b=fields.BOOLEAN(),
        g=fields.NGRAM(minsize=2, maxsize=3),
        gw=fields.NGRAMWORDS(minsize=2, maxsize=3),
        gq=fields.NGRAM(queryor=True, phrase=True),
        s=fields.STORED(),
    )
    ix = RamStorage().create_index(schema)
    docs = []
    w = ix.writer()
    weights = [1.0 / (i + 1) for i in range(len(VOCAB))]
    for i in range(NDOCS):
        tw = rng.choices(VOCAB, weights, k=rng.randint(3, 8))
        t2w = rng.choices(VOCAB, weights, k=rng.randint(2, 6))
        kw = sorted(set(rng.choices(KVOCAB, k=rng.randint(1, 3))))
        n = rng.randint(-5, 20)
        f = rng.randint(-4, 20) * 0.5
        d = datetime.datetime(2020, 1, 1) + datetime.timedelta(hours=rng.randrange(0, 24 * 40))
        b = rng.random() < 0.5
        doc = dict(id=str(i), t=tw, t2=t2w, k=kw, n=n, f=f, d=d, b=b)
        docs.append(doc)
        w.add_document(id=str(i), t=" ".join(tw), t2=" ".join(t2w), tp=" ".join(tw), to=" ".join(t2w),
                       ts=" ".join(tw), k=" ".join(kw), kc=",".join(kw), il=" ".join(kw), n=n, u8=abs(n), f=f,
                       dc=Decimal(n) / 4, d=d, b=b, g=" ".join(tw[:2]), gw=" ".join(tw[:3]), gq=tw[0],
                       s="stored %d" % i)
    w.commit()
    # sanity of the corpus model: the analyzers must equal split() on this vocabulary
    for fname in ("t", "t2", "k"):
        fld = schema[fname]
        for word in VOCAB + KVOCAB:
            assert [t.text for t in fld.analyzer(word, mode="index")] == [word], (fname, word)
            assert [t.text for t in fld.analyzer(word, mode="query")] == [word], (fname, word)
    # a second index with the same documents spread over three segments, some of them deleted: the totality
    # monitor also runs every parsed query there ("running that query on any index")
    ix2 = RamStorage().create_index(schema)
    for lo, hi in ((0, 20), (20, 36), (36, NDOCS)):
        w = ix2.writer()
        for d in docs[lo:hi]:
            i = int(d["id"])
            w.add_document(id=d["id"], t=" ".join(d["t"]), t2=" ".join(d["t2"]), tp=" ".join(d["t"]),
                           to=" ".join(d["t2"]), ts=" ".join(d["t"]), k=" ".join(d["k"]), kc=",".join(d["k"]),
                           il=" ".join(d["k"]), n=d["n"], u8=abs(d["n"]), f=d["f"], dc=Decimal(d["n"]) / 4, d=d["d"],
                           b=d["b"], g=" ".join(d["t"][:2]), gw=" ".join(d["t"][:3]), gq=d["t"][0], s="stored %d" % i)
        w.commit(merge=False)
    w = ix2.writer()
    for i in (1, 2, 19, 20, 21, 35, 47):
        w.delete_by_term("id", str(i))
    w.commit(merge=False)
    W = World()
    W.deleted2 = frozenset(str(i) for i in (1, 2, 19, 20, 21, 35, 47))
    W.schema, W.ix, W.docs = schema, ix, docs
    W.searcher = ix.searcher()
    W.searcher2 = ix2.searcher()
    assert len(W.searcher2.reader().leaf_readers()) == 3 and W.searcher2.reader().has_deletions()
    assert len(W.searcher.reader().leaf_readers()) == 1 and not W.searcher.reader().has_deletions()
    W.all = frozenset(d["id"] for d in docs)
    W.parsers = make_parsers(schema)
    return W


def make_parsers(schema):
    """name -> (parser, language-profile or None). Profile: dict(group='and'|'or', default=[fields], extras=set())"""
    from whoosh import qparser, query
    from whoosh.qparser import QueryParser, MultifieldParser, SimpleParser, DisMaxParser, plugins, dateparse

    base = datetime.datetime(2020, 1, 15, 12, 0, 0)
    P = {}
    P["default"] = (QueryParser("t", schema), dict(group="and", default=["t"]))
    P["or"] = (QueryParser("t", schema, group=qparser.OrGroup), dict(group="or", default=["t"]))
    P["orfactory"] = (QueryParser("t", schema, group=qparser.OrGroup.factory(0.9)), dict(group="or", default=["t"]))
    P["multi"] = (MultifieldParser(["t", "t2"], schema), dict(group="and", default=["t", "t2"]))
    P["multi-or-boosts"] = (MultifieldParser(["t2", "t"], schema, fieldboosts={"t": 2.0, "t2": 0.5},
                                             group=qparser.OrGroup), dict(group="or", default=["t2", "t"]))
    P["multi-mixed"] = (MultifieldParser(["t", "k", "n", "d", "b", "g", "s"], schema), None)
    P["simple"] = (SimpleParser("t", schema), dict(simple=True, default=["t"]))
    P["dismax"] = (DisMaxParser({"t": 1.0, "t2": 0.5}, schema), dict(simple=True, default=["t", "t2"]))

    def noop_pseudo(node):
        return None

    def regex_maker(node):
        if node.has_text:
            node = plugins.RegexPlugin.RegexNode(node.text)
            node.set_fieldname("t")
            return node

    p = QueryParser("t", schema)
    for pl in (plugins.FuzzyTermPlugin(), plugins.GtLtPlugin(), plugins.RegexPlugin(),
               plugins.PseudoFieldPlugin({"pf": noop_pseudo, "regex": regex_maker}),
               plugins.CopyFieldPlugin({"k": "kc"}), plugins.FieldAliasPlugin({"t2": ["text", "body"]}),
               plugins.FunctionPlugin({"fn": lambda qs, *a, **k: query.Or([x for x in qs if x is not None])}),
               dateparse.DateParserPlugin(base)):
        p.add_plugin(pl)
    # language profile: the added syntax does not touch the characters the language generator uses
    P["allplugins"] = (p, dict(group="and", default=["t"], dateplugin=True, gtlt=True,
                                 alias={"text": "t2", "body": "t2"}))
    p = QueryParser("t", schema)
    for pl in (plugins.FuzzyTermPlugin(), plugins.GtLtPlugin(), plugins.RegexPlugin(), plugins.PlusMinusPlugin(),
               dateparse.DateParserPlugin(base, free=True), plugins.MultifieldPlugin(["t", "k"])):
        p.add_plugin(pl)
    P["plugins-free-dates"] = (p, None)
    p = QueryParser("t", schema)
    p.remove_plugin_class(plugins.PhrasePlugin)
    p.add_plugin(plugins.SequencePlugin())
    p.add_plugin(plugins.FuzzyTermPlugin())
    P["sequence"] = (p, None)
    p = QueryParser("t", schema)
    p.remove_plugin_class(plugins.WildcardPlugin)
    p.add_plugin(plugins.PrefixPlugin())
    P["prefix-only"] = (p, None)
    p = QueryParser("t", schema)
    p.replace_plugin(plugins.FieldsPlugin(remove_unknown=False))
    P["keep-unknown-fields"] = (p, dict(group="and", default=["t"]))
    p = QueryParser("t", schema)
    p.replace_plugin(plugins.OperatorsPlugin(And="&", Or="\\|", AndNot="&!", AndMaybe="&~", Not="-"))
    P["symbol-operators"] = (p, dict(group="and", default=["t"], ops=SYMBOL_OPS, negatives=False))
    P["variations"] = (QueryParser("ts", schema, termclass=query.Variations), None)
    P["bare"] = (QueryParser("t", schema, plugins=[]), None)
    p = QueryParser("t", schema)
    p.remove_plugin_class(plugins.FieldsPlugin)
    p.remove_plugin_class(plugins.OperatorsPlugin)
    p.remove_plugin_class(plugins.EveryPlugin)
    P["no-fields-no-operators"] = (p, None)
    P["dismax-tiebreak-and"] = (DisMaxParser({"t": 1.0, "k": 2.0, "n": 1.0}, schema, tiebreak=0.3), None)
    P["noschema"] = (QueryParser("t", None), None)
    return P


# ----------------------------------------------------------------------
# (1) totality: token soup
# ----------------------------------------------------------------------

OPS = ["AND", "OR", "NOT", "ANDNOT", "ANDMAYBE", "REQUIRE", "and", "TO", "to", "NEAR"]
BRACKETS = ["(", ")", "[", "]", "{", "}", "((", "))", "()", "[]", "{}", "( )"]
QUOTES = ['"', "'", '""', "''", '"~', '"~2', '"~0', "r\"", 'r"a.*"', 'r"["', 'r"(a"', 'r"*"', 'r"alp\\Z"', 'r"\\Aalfa\\Z"',
          'r"a\\Gb"', 'r"\\D+"']
PUNCT = [":", "^", "~", "*", "?", "+", "-", "<", ">", "<=", ">=", "=<", "=>", "=", "\\", ".", "/", "&&", "||", "!",
         "&", "|", "&!", "&~", "#", "#fn", "#fn[", "#fn[a,b=c]", ",", ";", "@", "%", "$", "::", "^^", "~~", "**", "*?",
         "??", "<<", ">>", "<>"]
FIELDS = ["id:", "t:", "t2:", "tp:", "to:", "ts:", "k:", "kc:", "il:", "n:", "u8:", "f:", "dc:", "d:", "b:", "g:", "gw:",
          "gq:", "s:", "zz:", "pf:", "regex:", "text:", "body:", "*:", "_x:", "T:", "é:", "t :", "t: "]
WORDS = ["alfa", "bravo", "charlie", "tomato", "stop", "the", "a", "x", "Alfa", "BRAVO", "foo-bar", "foo_bar", "it's",
         "a.b", "re", "helloworld", "he", "h"]
NUMS = ["0", "1", "2", "-3", "1.5", "-0.5", "1e3", "1e400", "-1e400", "nan", "inf", "-inf", "0x10", "255", "256", "-1",
        "99999999999999999999", "1.005", ".5", "5.", "1,5", "٣", "²", "1_000", "true", "false", "yes", "no", "t", "f",
        "1e999999999", "-1e999999999", "1e-999999999", "9e99999"]
DATES = ["2020", "202001", "20200103", "2020-01-03", "2020-01-03 10:00", "2020010310", "20200103101530",
         "20200103101530123456", "20201301", "20200230", "0000", "9999", "99999999", "today", "yesterday", "tomorrow",
         "now", "jan 5", "5 jan 2020", "last tuesday", "next week", "-2d", "+1mo", "3am", "12:30pm", "midnight",
         "feb 30", "2020 to 2021", "'jan 5 2020'", "'last year'", "5pm tomorrow", "jan 5 to feb 10", "2005 sept 12th",
         "4:46 am oct 31 2010", "-1y6mo to +2 yrs 23d", "now to +2h", "noon", "last year", "next friday", "0000-00-00",
         "31 feb", "feb 29 2021", "feb 29 2020", "13/13/2013", "25:61", "12am", "0am", "13pm", "12:60", "june 31",
         "-1000y", "+9999y", "+99999999d", "-1 week to now", "last tuesday to today", "1st", "32nd", "sept", "mar 0",
         "00:00:00.000001", "23:59:59.999999", "24:00", "d:'feb 29 2021'", "d:[feb 29 2021 to mar 1]", "d:[to]",
         "d:['-1000y' to '+1000y']", "d:>'31 feb'", "d:yesterday to", "d:to tomorrow", "d:last", "d:next"]
BOOSTS = ["^2", "^0.5", "^", "^.5", "^2.", "^-1", "^1e3", "^2^3", "^0", "^99999999999999999999"]
FUZZ = ["~", "~2", "~3", "~4", "~2/3", "~/3", "~2/9", "~0", "~1/0", "~/", "~2/", "~1/1", "~/99"]
RANGES = ["[a TO b]", "{a TO b}", "[a TO b}", "[TO b]", "[a TO]", "[TO]", "{TO}", "[ TO ]", "[a to b]", "[aTOb]",
          "['a b' TO 'c d']", "[a TO", "TO b]", "[2 TO 5]", "{2 TO 5}", "[5 TO 2]", "[2020 TO 2021]",
          "[20200103 TO 20200101]", "[x TO y TO z]", "[a TO b]^2", "[1.5 TO x]", "[-3 TO]", "{TO 1e400]",
          "[today TO tomorrow]", "['jan 1 2020' TO 'feb 1 2020']", "[TO TO TO]", "[]", "[a b]", "[true TO false]",
          "[1e999999999 TO]", "[TO 1e999999999]", "{-1e999999999 TO 5]"]
WILD = ["*", "?", "a*", "*a", "a?b", "*:*", "t:*", "n:*", "d:*", "b:*", "g:*", "s:*", "zz:*", "**", "a**b", "?*", "al*a",
        "\u055e", "\u061f", "a\u1367b", "[ab]*", "a[*", "\ud800*", "a\udc00?", "\ud800~", "al\udfff*a"]
SPACE = [" ", "  ", "\t", "\n", "\r\n", "\u00a0", "\u2003", "\u3000", "\x0b", "\x0c", "\x1c", "\x85"]
UNI = ["é", "É", "ß", "日本", "日本語 テキスト", "\u0000", "\U0001F600", "\ud7ff", "a\u0301", "\u200b", "\u202e", "ǅ", "İ",
       "ﬁ", "\ufeff", "\x7f", "\x1f", "\ud800", "\udfff", "a\ud800b"]
COMPOSITE = ["t:(", "k:(a OR", "n:[", "d:[2020 TO", "NOT (", "(NOT)", "( AND )", "(OR)", "AND AND", "NOT NOT a",
             "a ANDNOT", "ANDMAYBE b", "REQUIRE", "a REQUIRE b", "n:>", "n:>=", "d:<", "b:<=", "t:>a", "n:>2", "n:<x",
             "d:>=2020", "d:>today", "zz:>1", "s:>1", "s:a", "s:[a TO b]", "s:\"a b\"", "s:a*", "g:a", "gw:ab", "g:\"ab cd\"",
             "\"a b\"~2", "\"a b\"~", "\"a b\"~0", "\"a b\"~2^2", "\"\"", "\" \"", "\"the\"", "k:\"a b\"", "n:\"1 2\"",
             "d:\"jan 5\"", "b:\"x\"", "+a -b c", "+", "-", "+-a", "-(a b)", "+\"a b\"", "a^2~3", "a~2^3", "t:a^2",
             "(a b)^2", "()^2", "t:()", "t:(())", "t:t:a", "t::a", ":a", "a:", "t:^2", "t:~2", "t:*^2", "t:?~",
             "'a b'", "t:'a:b'", "'", "'a", "a'", "k:'a' 'b", "' AND '", "pf:a", "pf:(a b)", "pf:", "regex:a.c",
             "regex:(a", "#fn(a b)", "#fn[x](a)", "#fn", "#nofn(a)", "text:a", "n:1 OR d:2020 OR b:yes",
             "dc:[1e999999999 TO]", "dc:[TO -1e999999999]", "dc:{1e999999999 TO 2}", "dc:1e999999999", "f:[1e999999999 TO]",
             "n:[TO 1e999999999]", "t:\ud800*", "t2:a\udc00?", "k:\ud800", "ts:\udfff*"]
ATOM_CLASSES = [("op", OPS, 10), ("br", BRACKETS, 9), ("qu", QUOTES, 6), ("pu", PUNCT, 9), ("fi", FIELDS, 12),
                ("wo", WORDS, 9), ("nu", NUMS, 5), ("da", DATES, 5), ("bo", BOOSTS, 4), ("fz", FUZZ, 4),
                ("ra", RANGES, 5), ("wi", WILD, 5), ("sp", SPACE, 3), ("un", UNI, 4), ("co", COMPOSITE, 8)]


ALWAYS_CONFIGS = ("default", "or", "multi", "simple", "dismax", "allplugins", "plugins-free-dates", "sequence",
                  "noschema")


def gen_soup(rng, W):
    """-> (text, classes). Three generators: atom soup, nested-bracket soup, damaged well-formed expression."""
    r = rng.random()
    if r < 0.70:
        bag, wts = [], []
        for name, atoms, wt in ATOM_CLASSES:
            bag.append((name, atoms))
            wts.append(wt)
        parts, classes = [], []
        for _ in range(rng.randint(1, 10)):
            name, atoms = rng.choices(bag, wts)[0]
            parts.append(rng.choice(atoms))
            classes.append(name)
            sep = rng.choice(["", " ", " ", " ", ""])
            parts.append(sep)
            classes.append("_" if sep else "")
        return "".join(parts), tuple(classes)
    if r < 0.70 + 0.10:
        # group-edge soup: properly CLOSED groups (nested 1..3 deep, not the whole query) whose first / last
        # element is a hostile atom (operator, boost, punctuation, range piece ...): the plugin filters recurse
        # into groups, and the clean-up passes that protect the top level do not
        bag, wts = [], []
        for name, atoms, wt in ATOM_CLASSES:
            bag.append((name, atoms))
            wts.append(wt)

        def atom():
            name, atoms = rng.choices(bag, wts)[0]
            return rng.choice(atoms), name

        def group(depth):
            first, c1 = atom()
            last, c2 = atom()
            mid = rng.choice(["", "a", "alfa bravo", "a OR b", "t:c"])
            inner, cls = "", ()
            if depth > 1 and rng.random() < 0.6:
                inner, cls = group(depth - 1)
            opener = rng.choice(["(", "(", "( ", "t:(", "NOT (", "k:("])
            body = " ".join(x for x in [first if rng.random() < 0.8 else "", mid, inner, last if rng.random() < 0.5 else ""] if x)
            return opener + body + rng.choice([")", ")", ")^2", ") "]), (c1, c2) + cls
        g, cls = group(rng.randint(1, 3))
        before = rng.choice(["bravo ", "bravo OR ", "NOT ", "t:x ", "a AND ", ""])
        after = rng.choice(["", " charlie", " OR d", " AND", "^2"])
        if not before and not after:
            before = "bravo "
        return before + g + after, ("groupedge",) + cls
    if r < 0.86:
        depth = rng.choice([1, 2, 3, 5, 10, 20, 40, 40, 60])
        opener = rng.choice(["(", "t:(", "NOT (", "(a ", "((", "\"(", "k:(b OR "])
        if rng.random() < 0.04:
            # population B: deep enough for the recursive filters to hit the interpreter's recursion limit
            depth = 1000
            opener = rng.choice(["(", "t:(", "NOT (", "k:(b OR "])
        inner = rng.choice(["", "a", "a OR b", "AND", "NOT", "n:1", "*", "[a TO b]"])
        closer = rng.choice([")", ")", ")^2", "", ") AND ", ")~"])
        ncl = max(0, depth + rng.choice([0, 0, -1, 1, -depth]))
        return opener * depth + inner + closer * ncl, ("nest", opener, inner, closer, depth, ncl)
    # damaged well-formed expression
    prof = dict(group="and", default=["t"])
    tree = gen_tree(rng, prof, depth=rng.randint(1, 3))
    text = render(tree, 9)
    ops = []
    for _ in range(rng.randint(1, 3)):
        if not text:
            break
        op = rng.choice(["del", "dup", "ins", "swap", "cut"])
        i = rng.randrange(len(text))
        if op == "del":
            text = text[:i] + text[i + 1:]
        elif op == "dup":
            text = text[:i] + text[i] + text[i:]
        elif op == "ins":
            text = text[:i] + rng.choice(["(", ")", '"', "'", ":", "^", "~", "[", "]", "{", "}", "*", " ", "TO", "NOT ",
                                          " AND ", " OR ", "<", ">", "=", "+", "-", "\\"]) + text[i:]
        elif op == "swap" and i + 1 < len(text):
            text = text[:i] + text[i + 1] + text[i] + text[i + 2:]
        else:
            text = text[:i] if rng.random() < 0.5 else text[i:]
        ops.append(op)
    return text, ("damaged", shape_of(tree), tuple(ops))


def exc_mech(stage, e):
    from vf.core import whoosh_site
    site, in_harness = whoosh_site(e)
    return "%s:exc:%s@%s" % (stage, type(e).__name__, site), in_harness


def soup_case(ctx, rng, W):
    import traceback
    from whoosh import query
    from whoosh.qparser import QueryParserError
    text, classes = gen_soup(rng, W)
    ctx.count("soup.strings")
    # parse() documents that a byte string is decoded as latin-1
    as_bytes = False
    if rng.random() < 0.04:
        try:
            text.encode("latin1")
            as_bytes = True
            ctx.count("soup.bytes_input")
        except UnicodeError:
            pass
    s = W.searcher
    # every string goes through the main shipped configurations and a random half of the variants
    names = [n for n in W.parsers if n in ALWAYS_CONFIGS]
    rest = [n for n in W.parsers if n not in ALWAYS_CONFIGS]
    names += rng.sample(rest, (len(rest) + 1) // 2)
    for name in names:
        parser, _prof = W.parsers[name]
        ctx.count("soup.parses")
        ctx.count("soup.config." + name)
        wit = {"config": name, "text": text}
        arg = text
        if as_bytes:
            arg = text.encode("latin1")
            wit["as_latin1_bytes"] = True
        try:
            q = parser.parse(arg)
        except QueryParserError:
            ctx.count("soup.parser_errors")
            continue
        except RecursionError:
            deep = classes and classes[0] == "nest" and classes[4] >= 200
            ctx.fail("totality.parse", "known:recursion-limit-on-deep-nesting" if deep else "parse:exc:RecursionError",
                     dict(wit, text=text[:200] + "...(%d chars, nesting depth %s)" % (len(text), classes[4] if deep else "?")),
                     traceback.format_exc()[-1500:])
            continue
        except Exception as e:  # noqa
            mech, in_harness = exc_mech("parse", e)
            if in_harness:
                raise
            ctx.fail("totality.parse", mech, wit, traceback.format_exc()[-2500:])
            continue
        if not isinstance(q, query.Query):
            ctx.fail("totality.parse", "parse:returned-non-query:%s" % type(q).__name__, wit, repr(q)[:300])
            continue
        ctx.count("soup.queries")
        if q is query.NullQuery or isinstance(q, type(query.NullQuery)):
            ctx.count("soup.null_queries")
        if getattr(q, "error", None) is not None or _has_error(q):
            ctx.count("soup.inband_errors")
        wit = dict(wit, query=repr(q)[:300])
        if name in NO_SEARCH:
            continue
        for how in ("all", "top3", "multiseg-all", "multiseg-top3"):
            ctx.count("soup.searches")
            try:
                if how == "all":
                    r = s.search(q, limit=None)
                    len(r)
                    [h.docnum for h in r]
                elif how == "top3":
                    r = s.search(q, limit=3)
                    r.scored_length()
                    [h.score for h in r]
                elif how == "docs":
                    list(s.docs_for_query(q))
                elif how == "multiseg-all":
                    r = W.searcher2.search(q, limit=None)
                    [h.docnum for h in r]
                else:
                    r = W.searcher2.search(q, limit=3)
                    [h.score for h in r]
                ctx.count("soup.searches_ok")
            except query.QueryError:
                ctx.count("soup.query_errors")
                break
            except Exception as e:  # noqa
                mech, in_harness = exc_mech("search", e)
                if in_harness:
                    raise
                ctx.fail("totality.search", mech, dict(wit, how=how), traceback.format_exc()[-2500:])
                break
    nontrivial = any(c not in ("wo", "sp", "_", "") for c in classes)
    return ("soup", classes), nontrivial, {"kind": "soup", "text": text}


# schema=None is documented as "usually for testing purposes": the text of the query is not analysed or validated
# against any field, so its queries are parsed (totality of parse) but not run.
NO_SEARCH = ("noschema",)

def _has_error(q):
    try:
        for sub in q.leaves():
            if getattr(sub, "error", None) is not None:
                return True
    except Exception:  # noqa
        pass
    return False


# ----------------------------------------------------------------------
# (2) language: intended trees
# ----------------------------------------------------------------------
# tree nodes (tuples):
#   ("term", field|None, word)            ("phrase", field|None, (w..), slop)
#   ("prefix", field|None, pre)           ("wild", field|None, pattern)
#   ("range", field|None, lo|None, hi|None, loexcl, hiexcl, tospelling)
#   ("num", "n"|"f", value)               ("nrange", "n"|"f", lo|None, hi|None, loexcl, hiexcl)
#   ("date", spec)  spec = "YYYY"|"YYYYMM"|"YYYYMMDD"|"YYYYMMDDhh" (+dashes)
#   ("drange", spec|None, spec|None)      ("bool", word)      ("id", str)
#   ("not", x) ("and", (x..)) ("or", (x..)) ("andnot", a, b) ("andmaybe", a, b) ("require", a, b)
#   ("seq", (x..))      implicit grouping
#   ("paren", x)        explicit, semantically transparent parentheses
#   ("fgroup", field, x)   field:( ... )  - applies to the unfielded leaves inside
#   ("boost", x, "2.5")    x^2.5
TEXT_FIELDS = [None, None, None, "t", "t2", "k"]
BINOPS = {"andnot": "ANDNOT", "andmaybe": "ANDMAYBE", "require": "REQUIRE"}


def gen_leaf(rng, prof, st):
    r = rng.random()
    fld = rng.choice(TEXT_FIELDS)
    if prof.get("alias") and rng.random() < 0.15:
        fld = rng.choice(sorted(prof["alias"]))
    vocab = KVOCAB if fld == "k" else VOCAB
    if prof.get("gtlt") and rng.random() < 0.07:
        fn = rng.choice(["n", "f", "k"])
        op = rng.choice(["<", ">", "<=", ">=", "=<", "=>"])
        if fn == "k":
            return ("gtlt", fn, op, rng.choice(KVOCAB))
        return ("gtlt", fn, op, rng.choice(list(range(-5, 21)) if fn == "n" else [x * 0.5 for x in range(-4, 21)]))
    if r < 0.42:
        kind = "qterm" if (prof.get("squote", True) and rng.random() < 0.08) else "term"
        return (kind, fld, rng.choice(vocab[:8] if rng.random() < 0.7 else vocab))
    if r < 0.52:
        f2 = fld if fld != "k" else None
        n = rng.choice([2, 2, 2, 3])
        return ("phrase", f2, tuple(rng.choice(VOCAB[:6]) for _ in range(n)), rng.choice([1, 1, 2, 3, 5]))
    if r < 0.58:
        w = rng.choice(vocab)
        return ("prefix", fld, w[:rng.randint(1, max(1, len(w) - 1))])
    if r < 0.66:
        w = rng.choice(vocab)
        how = rng.choice(["q", "star-mid", "lead-star", "lead-q", "both", "q-star"])
        if how == "q":
            i = rng.randrange(len(w))
            pat = w[:i] + "?" + w[i + 1:]
        elif how == "star-mid":
            i = rng.randint(1, len(w) - 1)
            j = rng.randint(i, len(w) - 1)
            pat = w[:i] + "*" + w[j:]
        elif how == "lead-star":
            pat = "*" + w[rng.randint(1, len(w) - 1):]
        elif how == "lead-q":
            pat = "?" + w[1:]
        elif how == "both":
            pat = "*" + w[1:-1] + "*" if len(w) > 2 else "*" + w
        else:
            pat = w[0] + "?" + "*"
        return ("wild", fld, pat)
    if r < 0.74:
        keys = set(prof["default"]) if fld is None else {prof.get("alias", {}).get(fld, fld)}
        if (keys & st["rangefields"]) and not st.get("popB"):
            return ("term", fld, rng.choice(vocab))
        st["rangefields"].update(keys)
        towords = [w for w in vocab if "to" in w]     # bounds that contain the letters of the separator
        a, b = sorted([rng.choice(towords if rng.random() < 0.3 else vocab),
                       rng.choice(towords if rng.random() < 0.3 else vocab)])
        if rng.random() < 0.3:
            a = a[:rng.randint(1, len(a))]
        if rng.random() < 0.3:
            b = b[:rng.randint(1, len(b))]
            a, b = sorted([a, b])
        # a bare bound spelled "to" is ambiguous with the separator ("[TO to}"); the tests of the parser quote it
        if a == "to":
            a = "tom"
        if b == "to":
            b = "tom"
        lo, hi = a, b
        open_ = rng.random()
        if open_ < 0.15:
            lo = None
        elif open_ < 0.3:
            hi = None
        le, he = rng.random() < 0.35, rng.random() < 0.35
        if lo is not None and lo == hi and (le or he):
            le = he = False
        return ("range", fld, lo, hi, le, he, rng.choice(["TO", "TO", "to"]))
    if r < 0.80:
        fn = rng.choice(["n", "f"])
        dom = list(range(-5, 21)) if fn == "n" else [x * 0.5 for x in range(-4, 21)]
        if not prof.get("negatives", True):
            dom = [x for x in dom if x >= 0]
        if rng.random() < 0.4 or fn in st["rangefields"]:
            return ("num", fn, rng.choice(dom))
        st["rangefields"].add(fn)
        lo, hi = sorted([rng.choice(dom), rng.choice(dom)])
        o = rng.random()
        if o < 0.15:
            lo = None
        elif o < 0.3:
            hi = None
        le, he = rng.random() < 0.35, rng.random() < 0.35
        if lo is not None and hi is not None and (hi - lo) < 1 and (le or he):
            le = he = False
        return ("nrange", fn, lo, hi, le, he)
    if r < 0.87:
        def spec():
            # documented forms only: YYYY[MM[DD[hh]]] of the DATETIME field (dates.rst); with the DateParserPlugin
            # only the forms its documentation lists (a year, YYYYMMDD)
            day = datetime.date(2020, 1, 1) + datetime.timedelta(days=rng.randrange(0, 42))
            k = rng.random()
            if prof.get("dateplugin"):
                return "2020" if k < 0.1 else "%04d%02d%02d" % (day.year, day.month, day.day)
            if k < 0.15:
                return "%04d%02d" % (day.year, day.month)
            if k < 0.2:
                return "2020"
            if k < 0.8:
                return "%04d%02d%02d" % (day.year, day.month, day.day)
            return "%04d%02d%02d%02d" % (day.year, day.month, day.day, rng.randrange(24))
        if rng.random() < 0.5 or "d" in st["rangefields"]:
            return ("date", spec())
        st["rangefields"].add("d")
        a, b = spec(), spec()
        if prof.get("dateplugin"):
            # the DateParserPlugin fills the unspecified parts of one end of a range from the other end or the base
            # date (by design), so only fully specified days have one reading there
            while len(a) != 8:
                a = spec()
            while len(b) != 8:
                b = spec()
        if date_bounds(a)[0] > date_bounds(b)[0]:
            a, b = b, a
        return ("drange", a, b)
    if r < 0.93:
        return ("bool", rng.choice(["true", "false", "yes", "no", "t", "f", "1", "0", "True", "FALSE"]))
    return ("id", str(rng.randrange(NDOCS + 3)))


def gen_tree(rng, prof, depth, st=None, top=True):
    if st is None:
        st = {"rangefields": set()}
    if depth <= 0:
        leaf = gen_leaf(rng, prof, st)
        if rng.random() < 0.12 and leaf[0] not in ("qterm", "gtlt"):
            leaf = ("boost", leaf, rng.choice(["2", "0.5", "2.5", "10", ".5", "3.0"]))
        return leaf
    r = rng.random()
    sub = lambda d=None: gen_tree(rng, prof, depth - 1 if d is None else d, st, False)  # noqa
    if rng.random() < 0.08:
        # a parenthesised binary operator over frequent plain words, driven by an intersecting parent (explicit AND,
        # implicit sequence, REQUIRE): the parent positions the operator's matcher with skip_to() instead of next()
        fw = lambda: ("term", None, rng.choice(VOCAB[:5]))  # noqa
        inner = ("paren", (rng.choice(list(BINOPS)), fw(), fw()))
        how = rng.random()
        if how < 0.4:
            kids = [fw(), inner] + ([fw()] if rng.random() < 0.3 else [])
            rng.shuffle(kids)
            return ("and", tuple(kids))
        if how < 0.7:
            kids = [fw(), inner]
            rng.shuffle(kids)
            return ("seq", tuple(kids))
        return ("require", inner, fw()) if rng.random() < 0.5 else ("require", fw(), inner)
    if r < 0.14:
        return ("not", sub())
    if r < 0.32:
        return ("and", tuple(sub() for _ in range(rng.randint(2, 3))))
    if r < 0.50:
        return ("or", tuple(sub() for _ in range(rng.randint(2, 3))))
    if r < 0.64:
        return (rng.choice(list(BINOPS)), sub(), sub())
    if r < 0.82:
        return ("seq", tuple(sub() for _ in range(rng.randint(2, 4))))
    if r < 0.88:
        return ("paren", sub())
    if r < 0.95:
        x = sub()
        fld = rng.choice(["t", "t2", "k"] + sorted(prof.get("alias", {})))
        if fld == "k" and has_kind(x, ("phrase",)):
            fld = "t2"      # KEYWORD has no positions: a phrase there is a (documented) QueryError
        return ("fgroup", fld, x)
    x = sub()
    if x[0] in ("term", "phrase", "prefix", "wild", "range", "paren", "fgroup", "num", "nrange", "date", "drange",
                "bool", "id"):
        return ("boost", x, rng.choice(["2", "0.5", "2.5"]))
    return ("boost", ("paren", x), rng.choice(["2", "0.5", "2.5"]))


def shape_of(t):
    k = t[0]
    if k in ("term", "qterm", "prefix", "wild"):
        return (k, t[1])
    if k == "gtlt":
        return (k, t[1], t[2])
    if k == "phrase":
        return (k, t[1], len(t[2]), t[3])
    if k == "range":
        return (k, t[1], t[2] is None, t[3] is None, t[4], t[5])
    if k == "nrange":
        return (k, t[1], t[2] is None, t[3] is None, t[4], t[5])
    if k == "num":
        return (k, t[1])
    if k == "date":
        return (k, len(t[1]))
    if k == "drange":
        return (k, t[1] is None, t[2] is None)
    if k in ("bool", "id"):
        return (k,)
    if k in ("not", "paren"):
        return (k, shape_of(t[1]))
    if k in ("and", "or", "seq"):
        return (k,) + tuple(shape_of(x) for x in t[1])
    if k in BINOPS:
        return (k, shape_of(t[1]), shape_of(t[2]))
    if k == "fgroup":
        return (k, t[1], shape_of(t[2]))
    if k == "boost":
        return (k, shape_of(t[1]))
    raise ValueError(k)


# precedence levels of a rendered expression: 0 atom, 1 NOT, 2 AND chain, 3 OR chain, 4 binary, 5 implicit sequence
def level(t):
    k = t[0]
    if k == "not":
        return 1
    if k == "and":
        return 2
    if k == "or":
        return 3
    if k in BINOPS:
        return 4
    if k == "seq":
        return 5
    return 0


WORD_OPS = {"not": "NOT ", "and": " AND ", "or": " OR ", "andnot": " ANDNOT ", "andmaybe": " ANDMAYBE ",
            "require": " REQUIRE "}
# the symbols of the documented example in parsing.rst ("Changing the AND, OR, ANDNOT, ANDMAYBE, and NOT syntax")
SYMBOL_OPS = {"not": "-", "and": " & ", "or": " | ", "andnot": " &! ", "andmaybe": " &~ ", "require": " REQUIRE "}


def render(t, maxlevel, sp=WORD_OPS):
    """Render `t`; parenthesise when its level exceeds what the context allows."""
    s = _render(t, sp)
    if level(t) > maxlevel:
        return "(" + s + ")"
    return s


def _fp(fld):
    return (fld + ":") if fld else ""


def _num(v):
    if isinstance(v, float):
        return repr(v)
    return str(v)


def _render(t, sp=WORD_OPS):
    k = t[0]
    if k == "term":
        return _fp(t[1]) + t[2]
    if k == "qterm":
        return _fp(t[1]) + "'" + t[2] + "'"
    if k == "phrase":
        s = _fp(t[1]) + '"' + " ".join(t[2]) + '"'
        if t[3] != 1:
            s += "~%d" % t[3]
        return s
    if k == "prefix":
        return _fp(t[1]) + t[2] + "*"
    if k == "wild":
        return _fp(t[1]) + t[2]
    if k == "range":
        _, fld, lo, hi, le, he, to = t
        body = ("%s " % lo if lo is not None else "") + to + (" %s" % hi if hi is not None else "")
        return _fp(fld) + ("{" if le else "[") + body + ("}" if he else "]")
    if k == "num":
        return t[1] + ":" + _num(t[2])
    if k == "nrange":
        _, fld, lo, hi, le, he = t
        body = ("%s " % _num(lo) if lo is not None else "") + "TO" + (" %s" % _num(hi) if hi is not None else "")
        return fld + ":" + ("{" if le else "[") + body + ("}" if he else "]")
    if k == "gtlt":
        return t[1] + ":" + t[2] + (_num(t[3]) if not isinstance(t[3], str) else t[3])
    if k == "date":
        return "d:" + t[1]
    if k == "drange":
        return "d:[" + ("%s " % t[1] if t[1] else "") + "TO" + (" %s" % t[2] if t[2] else "") + "]"
    if k == "bool":
        return "b:" + t[1]
    if k == "id":
        return "id:" + t[1]
    if k == "not":
        return sp["not"] + render(t[1], 0, sp)
    if k == "and":
        return sp["and"].join(render(x, 1, sp) for x in t[1])
    if k == "or":
        return sp["or"].join(render(x, 2, sp) for x in t[1])
    if k in BINOPS:
        a, b = t[1], t[2]
        # same operator on the left: left-associative chain; everything else of level 4 is parenthesised
        left = _render(a, sp) if (a[0] == k) else render(a, 3, sp)
        return left + sp[k] + render(b, 3, sp)
    if k == "seq":
        return " ".join(render(x, 4, sp) for x in t[1])
    if k == "paren":
        return "(" + _render(t[1], sp) + ")"
    if k == "fgroup":
        return t[1] + ":(" + _render(t[2], sp) + ")"
    if k == "boost":
        return render(t[1], 0, sp) + "^" + t[2]
    raise ValueError(k)


# ---- independent reading: Python sets over the corpus ---------------------------------

def date_bounds(spec):
    s = spec.replace("-", "")
    y = int(s[:4])
    if len(s) == 4:
        return datetime.datetime(y, 1, 1), datetime.datetime(y, 12, 31, 23, 59, 59, 999999)
    m = int(s[4:6])
    if len(s) == 6:
        nxt = datetime.datetime(y + (m == 12), (m % 12) + 1, 1)
        return datetime.datetime(y, m, 1), nxt - datetime.timedelta(microseconds=1)
    d = int(s[6:8])
    if len(s) == 8:
        return datetime.datetime(y, m, d), datetime.datetime(y, m, d, 23, 59, 59, 999999)
    h = int(s[8:10])
    return datetime.datetime(y, m, d, h), datetime.datetime(y, m, d, h, 59, 59, 999999)


BOOL_TRUE = {"t", "true", "yes", "1"}


def model_eval(t, W, prof, fld_ctx=None):
    """Set of doc ids the expression selects. fld_ctx = field imposed by an enclosing field group."""
    docs, ALL = W.docs, W.all
    k = t[0]
    group_or = prof.get("group") == "or"

    def fields_of(f):
        if f is not None:
            return [prof.get("alias", {}).get(f, f)]
        if fld_ctx is not None:
            return [fld_ctx]
        return prof["default"]

    def by_tokens(f, pred):
        out = set()
        for fn in fields_of(f):
            for d in docs:
                if pred(d[fn]):
                    out.add(d["id"])
        return out
    if k in ("term", "qterm"):
        return by_tokens(t[1], lambda toks: t[2] in toks)
    if k == "gtlt":
        _, f, op, v = t
        cmp = {"<": lambda x: x < v, ">": lambda x: x > v, "<=": lambda x: x <= v, "=<": lambda x: x <= v,
               ">=": lambda x: x >= v, "=>": lambda x: x >= v}[op]
        if f in ("n", "f"):
            return set(d["id"] for d in docs if cmp(d[f]))
        return by_tokens(f, lambda toks: any(cmp(w) for w in toks))
    if k == "phrase":
        words, slop = t[2], t[3]

        def has_phrase(toks):
            # positions p1<p2<.. with consecutive gaps <= slop
            starts = [i for i, w in enumerate(toks) if w == words[0]]
            for w in words[1:]:
                nxt = set()
                for p in starts:
                    for q in range(p + 1, min(len(toks), p + slop + 1)):
                        if toks[q] == w:
                            nxt.add(q)
                starts = sorted(nxt)
                if not starts:
                    return False
            return True
        return by_tokens(t[1], has_phrase)
    if k == "prefix":
        return by_tokens(t[1], lambda toks: any(w.startswith(t[2]) for w in toks))
    if k == "wild":
        return by_tokens(t[1], lambda toks: any(fnmatch.fnmatchcase(w, t[2]) for w in toks))
    if k == "range":
        _, f, lo, hi, le, he, _to = t

        def inr(w):
            if lo is not None and (w <= lo if le else w < lo):
                return False
            if hi is not None and (w >= hi if he else w > hi):
                return False
            return True
        return by_tokens(f, lambda toks: any(inr(w) for w in toks))
    if k == "num":
        return set(d["id"] for d in docs if d[t[1]] == t[2])
    if k == "nrange":
        _, f, lo, hi, le, he = t

        def inn(x):
            if lo is not None and (x <= lo if le else x < lo):
                return False
            if hi is not None and (x >= hi if he else x > hi):
                return False
            return True
        return set(d["id"] for d in docs if inn(d[f]))
    if k == "date":
        a, b = date_bounds(t[1])
        return set(d["id"] for d in docs if a <= d["d"] <= b)
    if k == "drange":
        a = date_bounds(t[1])[0] if t[1] else datetime.datetime.min
        b = date_bounds(t[2])[1] if t[2] else datetime.datetime.max
        return set(d["id"] for d in docs if a <= d["d"] <= b)
    if k == "bool":
        v = t[1].lower() in BOOL_TRUE
        return set(d["id"] for d in docs if d["b"] == v)
    if k == "id":
        return set(d["id"] for d in docs if d["id"] == t[1])
    ev = lambda x, fc=fld_ctx: model_eval(x, W, prof, fc)  # noqa
    if k == "not":
        return set(ALL) - ev(t[1])
    if k == "and":
        out = set(ALL)
        for x in t[1]:
            out &= ev(x)
        return out
    if k == "or":
        out = set()
        for x in t[1]:
            out |= ev(x)
        return out
    if k == "seq":
        if group_or:
            out = set()
            for x in t[1]:
                out |= ev(x)
        else:
            out = set(ALL)
            for x in t[1]:
                out &= ev(x)
        return out
    if k == "andnot":
        return ev(t[1]) - ev(t[2])
    if k == "andmaybe":
        return ev(t[1])
    if k == "require":
        return ev(t[1]) & ev(t[2])
    if k in ("paren", "boost"):
        return ev(t[1])
    if k == "fgroup":
        # the innermost enclosing field group wins? No: set_fieldname(override=False) is applied by the
        # innermost group first, so an inner group's field sticks - which is also the natural reading.
        return model_eval(t[2], W, prof, prof.get("alias", {}).get(t[1], t[1]))
    raise ValueError(k)


# ---- the same reading as whoosh.query objects (same engine as the parsed query) ---------

def to_query(t, W, prof, fld_ctx=None):
    from whoosh import query
    k = t[0]
    group_or = prof.get("group") == "or"

    def over_fields(f, mk):
        if f is not None:
            return mk(prof.get("alias", {}).get(f, f))
        if fld_ctx is not None:
            return mk(fld_ctx)
        fl = prof["default"]
        if len(fl) == 1:
            return mk(fl[0])
        return query.Or([mk(x) for x in fl])
    if k in ("term", "qterm"):
        return over_fields(t[1], lambda f: query.Term(f, t[2]))
    if k == "gtlt":
        _, f, op, v = t
        lo, hi, le, he = {"<": (None, v, False, True), ">": (v, None, True, False), "<=": (None, v, False, False),
                          "=<": (None, v, False, False), ">=": (v, None, False, False),
                          "=>": (v, None, False, False)}[op]
        if f in ("n", "f"):
            return query.NumericRange(f, lo, hi, le, he)
        return query.TermRange(f, lo, hi, le, he)
    if k == "phrase":
        return over_fields(t[1], lambda f: query.Phrase(f, list(t[2]), slop=t[3]))
    if k == "prefix":
        return over_fields(t[1], lambda f: query.Prefix(f, t[2]))
    if k == "wild":
        return over_fields(t[1], lambda f: query.Wildcard(f, t[2]))
    if k == "range":
        return over_fields(t[1], lambda f: query.TermRange(f, t[2], t[3], t[4], t[5]))
    if k == "num":
        return query.NumericRange(t[1], t[2], t[2])
    if k == "nrange":
        return query.NumericRange(t[1], t[2], t[3], t[4], t[5])
    if k == "date":
        a, b = date_bounds(t[1])
        return query.DateRange("d", a, b)
    if k == "drange":
        a = date_bounds(t[1])[0] if t[1] else None
        b = date_bounds(t[2])[1] if t[2] else None
        return query.DateRange("d", a, b)
    if k == "bool":
        return query.Term("b", b"t" if t[1].lower() in BOOL_TRUE else b"f")
    if k == "id":
        return query.Term("id", t[1])
    cv = lambda x, fc=fld_ctx: to_query(x, W, prof, fc)  # noqa
    if k == "not":
        return query.Not(cv(t[1]))
    if k == "and":
        return query.And([cv(x) for x in t[1]])
    if k == "or":
        return query.Or([cv(x) for x in t[1]])
    if k == "seq":
        return (query.Or if group_or else query.And)([cv(x) for x in t[1]])
    if k == "andnot":
        return query.AndNot(cv(t[1]), cv(t[2]))
    if k == "andmaybe":
        return query.AndMaybe(cv(t[1]), cv(t[2]))
    if k == "require":
        return query.Require(cv(t[1]), cv(t[2]))
    if k in ("paren", "boost"):
        return cv(t[1])
    if k == "fgroup":
        return to_query(t[2], W, prof, prof.get("alias", {}).get(t[1], t[1]))
    raise ValueError(k)


def apply_copyfield(t, copy):
    """CopyFieldPlugin({"k": "kc"}): a clause in field k is documented to become (k:x OR kc:x); kc holds the same
    keywords, so the selected set is unchanged - nothing to do for the reading."""
    return t


def engine_docs(W, q):
    s = W.searcher
    return frozenset(s.stored_fields(dn)["id"] for dn in s.docs_for_query(q))


def has_kind(t, kinds):
    if t[0] in kinds:
        return True
    for x in t[1:]:
        if isinstance(x, tuple) and x and isinstance(x[0], str) and x[0] in _KINDS and has_kind(x, kinds):
            return True
        if isinstance(x, tuple):
            for y in x:
                if isinstance(y, tuple) and y and isinstance(y[0], str) and y[0] in _KINDS and has_kind(y, kinds):
                    return True
    return False


_KINDS = {"term", "qterm", "gtlt", "phrase", "prefix", "wild", "range", "num", "nrange", "date", "drange", "bool", "id", "not", "and",
          "or", "andnot", "andmaybe", "require", "seq", "paren", "fgroup", "boost"}


def lang_eval(W, name, tree):
    """Parse render(tree) with configuration `name` and compare documents. -> dict(status=..., ...)"""
    import traceback
    from whoosh.qparser import QueryParserError
    parser, prof = W.parsers[name]
    text = render(tree, 9, prof.get("ops", WORD_OPS))
    res = {"text": text, "tree": tree}
    res["expected"] = expected = frozenset(model_eval(tree, W, prof))
    try:
        q = parser.parse(text)
    except QueryParserError as e:
        return dict(res, status="rejected", detail=repr(e))
    except Exception as e:  # noqa
        mech, in_harness = exc_mech("parse", e)
        if in_harness:
            raise
        return dict(res, status="parse-exc", mech=mech, detail=traceback.format_exc()[-2500:])
    res["parsed"] = repr(q)[:600]
    res["_q"] = q
    try:
        got = engine_docs(W, q)
    except Exception as e:  # noqa
        mech, in_harness = exc_mech("search", e)
        if in_harness:
            raise
        return dict(res, status="search-exc", mech=mech, detail=traceback.format_exc()[-2500:])
    res["got"] = got
    if got == expected:
        return dict(res, status="agree", model=True)
    # second reading: same tree as whoosh.query objects through the same engine
    try:
        eng = engine_docs(W, to_query(tree, W, prof))
    except Exception:  # noqa  (engine defect on the intended tree: not the parser's)
        eng = None
    res["eng"] = eng
    if eng is not None and got == eng:
        return dict(res, status="agree", model=False)
    return dict(res, status="differ")


def shrink_candidates(t):
    """Smaller trees: a sub-tree in place of the tree, an n-ary node without one child, or the same node with one
    child replaced by one of its own candidates."""
    k = t[0]
    if k in ("not", "paren"):
        yield t[1]
        for c in shrink_candidates(t[1]):
            yield (k, c)
    elif k == "boost":
        yield t[1]
        for c in shrink_candidates(t[1]):
            yield (k, c, t[2])
    elif k == "fgroup":
        yield t[2]
        for c in shrink_candidates(t[2]):
            yield (k, t[1], c)
    elif k in ("and", "or", "seq"):
        xs = t[1]
        for x in xs:
            yield x
        if len(xs) > 2:
            for i in range(len(xs)):
                yield (k, xs[:i] + xs[i + 1:])
        for i, x in enumerate(xs):
            for c in shrink_candidates(x):
                yield (k, xs[:i] + (c,) + xs[i + 1:])
    elif k in BINOPS:
        yield t[1]
        yield t[2]
        for c in shrink_candidates(t[1]):
            yield (k, c, t[2])
        for c in shrink_candidates(t[2]):
            yield (k, t[1], c)
    elif k == "phrase" and len(t[2]) > 2:
        yield (k, t[1], t[2][:2], t[3])


def shrink(W, name, tree, budget=300):
    """Greedy delta-debugging over the intended tree while the same monitor (documents differ) keeps firing."""
    cur = tree
    best = None
    progress = True
    while progress and budget > 0:
        progress = False
        for cand in shrink_candidates(cur):
            budget -= 1
            if budget <= 0:
                break
            try:
                r = lang_eval(W, name, cand)
            except Exception:  # noqa
                continue
            if r["status"] == "differ":
                cur, best, progress = cand, r, True
                break
    return cur, best


def range_fields(t, prof, fctx=None):
    """Effective (real) field of every range leaf, following enclosing field groups, aliases and multi-field defaults."""
    k = t[0]
    alias = prof.get("alias", {})
    if k == "range":
        if t[1] is not None:
            return [alias.get(t[1], t[1])]
        return [fctx] if fctx is not None else list(prof["default"])
    if k in ("nrange", "gtlt"):
        return [t[1]]
    if k == "drange":
        return ["d"]
    if k == "fgroup":
        return range_fields(t[2], prof, alias.get(t[1], t[1]))
    out = []
    for x in t[1:]:
        if isinstance(x, tuple) and x and isinstance(x[0], str) and x[0] in _KINDS:
            out += range_fields(x, prof, fctx)
        elif isinstance(x, tuple):
            for y in x:
                if isinstance(y, tuple) and y and isinstance(y[0], str) and y[0] in _KINDS:
                    out += range_fields(y, prof, fctx)
    return out


def degenerate_range_tree(rng, W):
    """A range whose two bounds are the same existing word, with every bracket combination: [x TO x] selects the
    documents holding x, the half-open and open forms select nothing. Alone or OR-ed with a term (never inside an
    AND: an empty clause inside a conjunction is C15's listed normalize behaviour)."""
    fld = rng.choice(["t", "t", "t2", "k"])
    vocab = KVOCAB if fld == "k" else VOCAB
    x = rng.choice([w for w in vocab if w != "to"] or ["alfa"])
    rg = ("range", fld, x, x, rng.random() < 0.5, rng.random() < 0.5, "TO")
    r = rng.random()
    if r < 0.4:
        return rg
    other = ("term", fld, rng.choice(vocab))
    return ("or", (rg, other) if r < 0.7 else (other, rg))


def lang_case(ctx, rng, W, tree=None):
    names = [n for n, (_p, prof) in W.parsers.items() if prof and not prof.get("simple")]
    name = rng.choice(names)
    parser, prof = W.parsers[name]
    popB = rng.random() < 0.06
    depth = rng.choice([1, 1, 2, 2, 2, 3, 3, 4])
    if tree is not None:
        popB = False
        ctx.count("lang.degenerate_ranges")
    for _attempt in range(20 if tree is None else 0):
        st = {"rangefields": set(), "popB": popB}
        tree = gen_tree(rng, prof, depth, st)
        rf = range_fields(tree, prof)
        if popB or len(rf) == len(set(rf)):
            break       # population A: at most one range per effective field (see ASSUMPTIONS)
    else:
        if tree is None:
            tree = ("term", None, "alfa")
    ctx.count("lang.cases")
    ctx.count("lang.popB" if popB else "lang.popA")
    ctx.count("lang.config." + name)
    r = lang_eval(W, name, tree)
    wit = {"config": name, "text": r["text"], "tree": tree}
    st_ = r["status"]
    if st_ == "rejected":
        ctx.fail("language.parse", "well-formed-rejected:" + name, wit, r["detail"])
        return ("lang", name, "rejected"), False, wit
    if st_ in ("parse-exc", "search-exc"):
        ctx.fail("language.parse" if st_ == "parse-exc" else "language.search", r["mech"], wit, r["detail"])
        return ("lang", name, "exc"), False, wit
    expected = r["expected"]
    wit["parsed"] = r["parsed"]
    ctx.count("lang.evals")
    nontrivial = bool(expected) and expected != W.all
    if nontrivial:
        ctx.count("lang.nontrivial")
    if st_ == "agree":
        ctx.count("lang.agree")
        if r["model"]:
            ctx.count("lang.agree_model")
            if not popB:
                # "on any index": the same parsed query on the three-segment copy of the corpus with deleted documents must
                # select the reading's documents minus the deleted ones (collector path and docs_for_query path)
                s2 = W.searcher2
                exp2 = frozenset(expected) - W.deleted2
                for path, fn in (("search", lambda: frozenset(h["id"] for h in s2.search(r["_q"], limit=None))),
                                 ("docs_for_query", lambda: frozenset(s2.stored_fields(dn)["id"] for dn in s2.docs_for_query(r["_q"])))):
                    ctx.count("lang.index2_evals")
                    ok2, got2 = ctx.guard("language.index2", dict(wit, index="3 segments, 7 documents deleted", path=path), fn)
                    if ok2 and got2 != exp2:
                        ctx.fail("language.index2", "segments+deletions:%s:%s" % (path, _culprit(tree)),
                                 dict(wit, index="3 segments, 7 documents deleted", path=path, expected=sorted(exp2, key=int)[:40],
                                      missing=sorted(exp2 - got2, key=int)[:20], extra=sorted(got2 - exp2, key=int)[:20]),
                                 "expected %d docs, got %d" % (len(exp2), len(got2)))
                        break
        else:
            ctx.count("lang.engine_vs_model")
            if popB:
                ctx.note("engine vs model differ on intended tree: %r" % (r["text"],))
            else:
                # the parser built the intended tree, but the engine evaluates that tree differently from the reading of the
                # expression (never observed on the pinned tree in 49 000 thorough cases): the user still gets the wrong
                # documents for a well-formed expression
                exp_, got_ = r["expected"], r["got"]
                ctx.fail("language.docs", "engine-evaluates-the-intended-tree-differently:%s" % _culprit(tree),
                         dict(wit, expected=sorted(exp_, key=int)[:40], got=sorted(got_, key=int)[:40],
                              missing=sorted(exp_ - got_, key=int)[:20], extra=sorted(got_ - exp_, key=int)[:20]),
                         "expected %d docs, got %d" % (len(exp_), len(got_)))
    else:
        if r.get("eng") is not None and r["eng"] != expected:
            ctx.count("lang.engine_vs_model")
        small, rs = shrink(W, name, tree)
        if rs is None:
            small, rs = tree, r
        wit = {"config": name, "text": rs["text"], "tree": small, "parsed": rs["parsed"],
               "original_text": r["text"] if small is not tree else None}
        exp, got = rs["expected"], rs["got"]
        wit["expected"] = sorted(exp, key=int)
        wit["got"] = sorted(got, key=int)
        wit["missing"] = sorted(exp - got, key=int)
        wit["extra"] = sorted(got - exp, key=int)
        # diagnosis: is it normalize() (C15) or the syntax tree?
        mech = "docs-differ"
        try:
            qun = parser.parse(rs["text"], normalize=False)
            gun = engine_docs(W, qun)
            wit["parsed_unnormalized"] = repr(qun)[:600]
            if gun == exp or (rs.get("eng") is not None and gun == rs["eng"]):
                mech = "normalize-changes-docs"
                if popB and _is_range_merge(qun):
                    mech = "known:c15-and-range-intersect-merge"
        except Exception:  # noqa
            pass
        ctx.fail("language.docs", mech if mech.startswith("known:") else "%s:%s" % (mech, _culprit(small)), wit,
                 "expected %d docs, got %d" % (len(exp), len(got)))
    return ("lang", name, shape_of(tree)), nontrivial, (wit if nontrivial else None)


def _is_range_merge(q):
    from whoosh import query
    def walk(x):
        if isinstance(x, query.And):
            flds = [s.fieldname for s in x.subqueries if isinstance(s, (query.TermRange, query.NumericRange))]
            if len(flds) != len(set(flds)):
                return True
        return any(walk(c) for c in x.children())
    return walk(q)


def _culprit(t):
    """A short stable description of the operators involved (mechanism key, no random data)."""
    kinds = set()

    def walk(x):
        kinds.add(x[0])
        for y in x[1:]:
            if isinstance(y, tuple) and y and isinstance(y[0], str) and y[0] in _KINDS:
                walk(y)
            elif isinstance(y, tuple):
                for z in y:
                    if isinstance(z, tuple) and z and isinstance(z[0], str) and z[0] in _KINDS:
                        walk(z)
    walk(t)
    inner = sorted(k for k in kinds if k in ("not", "and", "or", "andnot", "andmaybe", "require", "seq", "paren",
                                             "fgroup", "boost"))
    leaves = sorted(k for k in kinds if k not in inner)
    if inner:
        return "+".join(inner)
    return "+".join(leaves)


# ---- SimpleParser / DisMaxParser: + - and phrases ------------------------------------

def simple_case(ctx, rng, W):
    import traceback
    name = rng.choice(["simple", "dismax"])
    parser, prof = W.parsers[name]
    items = []
    for _ in range(rng.randint(1, 5)):
        sign = rng.choice(["", "", "+", "-"])
        if rng.random() < 0.25:
            words = tuple(rng.choice(VOCAB[:5]) for _ in range(2))
            items.append((sign, ("phrase", None, words, 1)))
        else:
            items.append((sign, ("term", None, rng.choice(VOCAB[:9]))))
    if all(s == "-" for s, _ in items):
        items.append(("", ("term", None, rng.choice(VOCAB[:4]))))
    rng.shuffle(items)
    text = " ".join(s + _render(x) for s, x in items)
    req = [x for s, x in items if s == "+"]
    opt = [x for s, x in items if s == ""]
    ban = [x for s, x in items if s == "-"]
    p2 = dict(prof, group="or")
    ev = lambda x: model_eval(x, W, p2)  # noqa
    if req:
        exp = set(W.all)
        for x in req:
            exp &= ev(x)
    else:
        exp = set()
        for x in opt:
            exp |= ev(x)
    for x in ban:
        exp -= ev(x)
    exp = frozenset(exp)
    ctx.count("simple.cases")
    wit = {"config": name, "text": text}
    try:
        q = parser.parse(text)
        wit["parsed"] = repr(q)[:500]
        got = engine_docs(W, q)
    except Exception as e:  # noqa
        mech, in_harness = exc_mech("simple", e)
        if in_harness:
            raise
        ctx.fail("language.simple", mech, wit, traceback.format_exc()[-2500:])
        return ("simple", name, "exc"), False, wit
    nontrivial = bool(exp) and exp != W.all
    if got != exp:
        wit["expected"] = sorted(exp, key=int)
        wit["got"] = sorted(got, key=int)
        ctx.fail("language.simple", "plusminus-docs-differ:%s:req=%d,opt=%d,ban=%d" % (
            name, bool(req), bool(opt), bool(ban)), wit)
    else:
        ctx.count("simple.agree")
    shape = ("simple", name, tuple((s, x[0]) for s, x in items))
    return shape, nontrivial, (wit if nontrivial else None)


# ----------------------------------------------------------------------

def run(ctx):
    W = build_world(ctx)
    try:
        for idx in ctx.cases(quick=600, thorough=6000):
            rng = ctx.rng(idx)
            ctx.reseed_global(idx)
            r = rng.random()
            if r < 0.42:
                shape, nontrivial, w = soup_case(ctx, rng, W)
            elif r < 0.90:
                shape, nontrivial, w = lang_case(ctx, rng, W)
            elif r < 0.93:
                shape, nontrivial, w = lang_case(ctx, rng, W, tree=degenerate_range_tree(rng, W))
            else:
                shape, nontrivial, w = simple_case(ctx, rng, W)
            ctx.case(shape, nontrivial, sample=w if (idx % 211 == 0) else None)
    finally:
        W.searcher.close()
        W.searcher2.close()
