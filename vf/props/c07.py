"""C07 - deletes, updates and cancel have exact, durable semantics.

Model-based histories: a dictionary model (serial -> document, plus the per-writer pending state)
is driven with the same operations as the real index; after EVERY commit (and after every cancel /
failed with-block) a freshly opened index is compared with the model through every read API the
statement names.
"""
LEVEL = "exploration"
RULE = ("case = one history of 10..40 operations over several successive writers on one index: add_document, update_document "
        "(unique field ID / NUMERIC / two unique fields, each key written at most once per writer), delete_document(docnum) "
        "(also of an already deleted doc, and delete=False = undelete of a deletion of this writer or of an earlier commit), "
        "delete_by_term, delete_by_query (return value), Index.delete_by_term/delete_by_query/optimize/add_field/remove_field, "
        "commit(merge=False | default | optimize=True), cancel(), exception inside `with ix.writer()`, add_field/remove_field, "
        "BufferedWriter sessions; RAM and file storage, compound and loose segments, posting block limit 2..128, with/without vectors and "
        "sortable columns; the writer's own is_deleted/deleted_count/has_deletions after every delete/undelete by number. "
        "Non-trivial when the history committed at least one deletion or update of a committed document and at least two commits "
        "were compared; distinct = (unique mode, writer kinds, op-kind sequence, commit kinds).")
ASSUMPTIONS = [
    "the model: a writer sees the committed live documents minus its own deletions (plus its own undeletions); documents it adds are "
    "not visible to its own delete/update calls (documented for update_document); a BufferedWriter sees and can delete its buffered "
    "documents as well (documented)",
    "key discipline as stated: add_document only with keys that are not live and not written by this writer; update_document/add_document "
    "write each unique value at most once per writer (per BufferedWriter session)",
    "undelete (delete=False) of a document deleted by an EARLIER commit is exercised only while the document is still physically present "
    "(found through reader.is_deleted/stored_fields of that doc number) and its unique values are not live; it is expected to become live again",
    "fields removed with remove_field are never re-added under the same name (the docs leave open whether old data survives); stored fields are "
    "compared projected onto the current schema",
    "vectors are compared on live documents that have at least one token; documents with an empty text may or may not have a vector",
    "after cancel()/failed with-block the index is compared logically (all read APIs, doc_count_all, segment ids, generation, schema names); "
    "orphan files of the cancelled segment in the storage are not inspected (C02 owns the storage level)",
    "search ORDER under sortedby/groupedby is C14's subject: here only the sets are compared",
    "FuzzyTerm is not used in delete_by_query (C19 owns its semantics)",
]
import contextlib
import random

SHARDS = {"quick": 4, "thorough": 16}
BUDGET_S = {"quick": 80, "thorough": 800}
FLOORS = {
    "quick": {"c07.histories": 100, "c07.commits_compared": 500, "c07.cancels_compared": 60, "c07.api_checks": 20000,
              "c07.pattern_delete_nonfirst_merge_update": 20, "c07.op.delete_docnum": 150, "c07.op.undelete": 40,
              "c07.op.delete_by_query": 100, "c07.op.delete_by_term": 100, "c07.op.update": 300, "c07.delete_count_checks": 200,
              "c07.buffered_sessions": 20, "c07.nontrivial": 60, "c07.topn.searches": 1500},
    "thorough": {"c07.histories": 1800, "c07.commits_compared": 9000, "c07.cancels_compared": 1000, "c07.api_checks": 400000,
                 "c07.pattern_delete_nonfirst_merge_update": 300, "c07.op.delete_docnum": 2500, "c07.op.undelete": 800,
                 "c07.op.delete_by_query": 2500, "c07.op.delete_by_term": 2500, "c07.op.update": 7000,
                 "c07.delete_count_checks": 5000, "c07.buffered_sessions": 400, "c07.nontrivial": 1200},
}

IDPOOL = [str(i) for i in range(14)]
KEYPOOL = list(range(-4, 10))
XVOCAB = ["xa", "xb", "xc"]


class Stop(Exception):
    """History stops at its first disagreement."""


# ----------------------------------------------------------------------
# model
# ----------------------------------------------------------------------

class Model(object):
    def __init__(self, mode, fields):
        self.mode = mode
        self.unique = {"id": ["id"], "num": ["key"], "two": ["id", "key"]}[mode]
        self.live = {}      # serial -> doc (committed, live)
        self.dead = {}      # serial -> doc (committed, deleted; may or may not be physically present)
        self.fields = set(fields)
        self.nserial = 0
        self.xcount = 0

    def live_values(self, docs, f):
        return set(d[f] for d in docs if d.get(f) is not None)


class Session(object):
    """Pending state of one writer."""

    def __init__(self, m, buffered=False):
        self.vis = dict(m.live)     # what the writer's own searcher sees
        self.gone = {}              # deleted by this writer
        self.res = {}               # resurrected from m.dead by this writer
        self.added = []             # documents added (not visible to the writer itself, unless buffered)
        self.written = dict((f, set()) for f in m.unique)
        self.fields = set(m.fields)
        self.buffered = buffered

    def delete(self, serials):
        for sn in serials:
            if sn in self.vis:
                self.gone[sn] = self.vis.pop(sn)

    def commit_into(self, m):
        for sn, d in self.gone.items():
            if sn in m.live:
                del m.live[sn]
            m.dead[sn] = d
        for sn, d in self.res.items():
            if sn in self.vis:
                m.dead.pop(sn, None)
                m.live[sn] = d
        for d in self.added:
            m.live[d["serial"]] = d
        if self.buffered:
            # buffered documents deleted before the flush
            for sn, d in self.gone.items():
                m.live.pop(sn, None)
        m.fields = set(self.fields)


def gen_doc(rng, m, sess, idv, keyv):
    from vf import model
    d = model.gen_doc(rng, idv, maxlen=5)
    d.pop("_boost", None)
    if keyv is not None:
        d["key"] = keyv
    for f in sorted(sess.fields):
        if f.startswith("x") and rng.random() < 0.7:
            d[f] = " ".join(rng.choice(XVOCAB) for _ in range(rng.randint(1, 2)))
    d["serial"] = m.nserial
    m.nserial += 1
    return d


def make_schema(mode, vector, sortable):
    from whoosh import fields
    return fields.Schema(
        id=fields.ID(stored=True, unique=mode in ("id", "two"), sortable=sortable),
        key=fields.NUMERIC(int, stored=True, unique=mode in ("num", "two")),
        serial=fields.STORED,
        t=fields.TEXT(stored=True, vector=vector),
        u=fields.TEXT(stored=True),
        k=fields.KEYWORD(stored=True, scorable=True),
        n=fields.NUMERIC(int, stored=True, sortable=sortable),
        d=fields.DATETIME(stored=True),
    )


def matches(q, d):
    """vf.model.matches extended with the extra fields of this schema (id, key, x*)."""
    from whoosh import query
    from vf import model
    if isinstance(q, query.Term) and not isinstance(q, query.FuzzyTerm):
        f = q.fieldname
        if f == "key":
            return d.get("key") == q.text
        if f == "id":
            return d.get("id") == q.text
    if isinstance(q, query.NumericRange) and q.fieldname == "key":
        v = d.get("key")
        return v is not None and model._in_range(v, q.start, q.end, q.startexcl, q.endexcl)
    if isinstance(q, query.And):
        return bool(q.subqueries) and all(matches(s, d) for s in q.subqueries)
    if isinstance(q, (query.Or, query.DisjunctionMax)):
        return any(matches(s, d) for s in q.subqueries)
    if isinstance(q, query.Not):
        return not matches(q.query, d)
    if isinstance(q, query.AndNot):
        return matches(q.a, d) and not matches(q.b, d)
    return model.matches(q, d)


def gen_delete_query(rng, sess):
    from whoosh import query
    from vf import model
    r = rng.random()
    if r < 0.15:
        return query.Term("id", rng.choice(IDPOOL))
    if r < 0.25:
        a, b = sorted([rng.choice(KEYPOOL), rng.choice(KEYPOOL)])
        return query.NumericRange("key", a, b, rng.random() < .3, rng.random() < .3)
    if r < 0.35:
        return query.Not(query.Term("t", model.zipf_choice(rng, model.VOCAB)))
    if r < 0.42:
        return query.AndNot(query.Every(), query.Term("k", rng.choice(model.KVOCAB)))
    if r < 0.47:
        xs = sorted(f for f in sess.fields if f.startswith("x"))
        if xs:
            return query.Term(rng.choice(xs), rng.choice(XVOCAB))
    if r < 0.52:
        return query.Or([query.Term("id", rng.choice(IDPOOL)) for _ in range(rng.randint(2, 9))])
    return model.gen_query(rng, depth=rng.choice([0, 1, 1, 2]), fuzzy=False)


# ----------------------------------------------------------------------
# comparison of a freshly opened index with the model
# ----------------------------------------------------------------------

def stored_view(d, fields):
    return dict((f, v) for f, v in d.items() if f in fields)


def term_universe(m):
    from vf import model
    out = [("t", w) for w in model.VOCAB] + [("u", w) for w in model.VOCAB[:8]] + [("k", w) for w in model.KVOCAB]
    out += [("id", v) for v in IDPOOL] + [("key", v) for v in KEYPOOL] + [("n", v) for v in range(-5, 6)]
    for f in sorted(m.fields):
        if f.startswith("x"):
            out += [(f, w) for w in XVOCAB]
    return out


def has_term(d, f, v):
    if f in ("key", "n"):
        return d.get(f) == v
    if f == "id":
        return d.get("id") == v
    val = d.get(f)
    return isinstance(val, str) and v in val.split()


class Comparer(object):
    def __init__(self, ctx, wit):
        self.ctx = ctx
        self.wit = wit

    def bad(self, api, exp, got, note=""):
        self.ctx.fail("c07.read", api, dict(self.wit(), api=api, expected=exp, observed=got), note)
        raise Stop()

    def eq(self, api, exp, got, note=""):
        self.ctx.count("c07.api_checks")
        if exp != got:
            self.bad(api, exp, got, note)

    def compare(self, st, m, rng, phase):
        from whoosh import query
        from whoosh.reading import TermNotFound
        from vf import model
        ix = st.open_index()
        live = m.live
        want = sorted(live)
        eq = self.eq
        eq("Index.doc_count", len(live), ix.doc_count())
        ixall = ix.doc_count_all()
        # one searcher lives through the whole history and is refresh()ed after every commit / cancel: half of the comparisons
        # read through it instead of a newly opened searcher (re-used segment readers must carry the current deletions)
        ll = getattr(self, "_longlived", None)
        if ll is not None and getattr(self, "_ll_fields", None) != sorted(m.fields):
            # the schema changed (add_field / remove_field): the long-lived searcher is refreshed across it like across any
            # other commit (on the pinned tree a refreshed searcher kept segment readers made with the schema of their time:
            # C03's subject, repaired in /repo dd50247; until then this searcher was re-opened here)
            self.ctx.count("c07.refreshed_searcher_across_schema_change")
        self._ll_fields = sorted(m.fields)
        self._longlived = ix.searcher() if ll is None else ll.refresh()
        use_ll = ll is not None and random.Random("c07-ll:%r" % rng.random()).random() < 0.5
        if use_ll:
            self.ctx.count("c07.compares_through_refreshed_searcher")

        @contextlib.contextmanager
        def _pick():
            fresh = ix.searcher()
            try:
                yield self._longlived if use_ll else fresh
            finally:
                fresh.close()
        with _pick() as s:
            r = s.reader()
            eq("reader.doc_count", len(live), r.doc_count())
            eq("searcher.doc_count", len(live), s.doc_count())
            dca = r.doc_count_all()
            eq("Index.doc_count_all", dca, ixall)
            eq("searcher.doc_count_all", dca, s.doc_count_all())
            eq("doc_count_all>=doc_count", True, dca >= r.doc_count())
            eq("has_deletions==(doc_count_all!=doc_count)", dca != r.doc_count(), bool(r.has_deletions()))
            names = set(ix.schema.names())
            eq("schema.names", sorted(m.fields), sorted(names))
            # ---- stored-field iteration
            docs = list(r.iter_docs())
            sn_of = {}
            for dn, sf in docs:
                sn_of[dn] = sf.get("serial")
            eq("iter_docs", want, sorted(sn_of.values(), key=lambda x: (x is None, x)))
            for dn, sf in docs:
                self.ctx.count("c07.api_checks")
                expd = stored_view(live[sf["serial"]], m.fields)
                got = stored_view(sf, m.fields)
                if got != expd:
                    self.bad("iter_docs.stored", expd, got)
                got = r.stored_fields(dn)
                if got != expd:
                    self.bad("stored_fields", expd, got)
            ids = list(r.all_doc_ids())
            eq("all_doc_ids", [dn for dn, _ in docs], ids)
            eq("all_stored_fields", want, sorted(sf.get("serial") for sf in r.all_stored_fields()))
            idset = set(ids)
            eq("is_deleted", [dn for dn in range(dca) if dn not in idset], [dn for dn in range(dca) if r.is_deleted(dn)])

            def serials(docnums, api):
                out = []
                for dn in docnums:
                    if dn not in sn_of:
                        self.bad(api, "only live doc numbers %r" % sorted(sn_of), "doc number %r (deleted or out of range)" % (dn,))
                    out.append(sn_of[dn])
                return sorted(out)

            # ---- postings
            for f, v in term_universe(m):
                expd = sorted(sn for sn, d in live.items() if has_term(d, f, v))
                try:
                    got = serials(list(r.postings(f, v).all_ids()), "postings")
                except TermNotFound:
                    got = []
                eq("postings", expd, got, "term %s:%r" % (f, v))
                if expd:
                    self.ctx.count("c07.postings_nonempty")
            # ---- unique lookups
            for f in m.unique:
                for v in (IDPOOL if f == "id" else KEYPOOL):
                    expd = sorted(sn for sn, d in live.items() if d.get(f) == v)
                    if len(expd) > 1:
                        raise AssertionError("harness: key discipline broken in the model %r" % ((f, v, expd),))
                    dn = s.document_number(**{f: v})
                    got = [] if dn is None else serials([dn], "document_number")
                    eq("document_number", expd, got, "%s=%r" % (f, v))
                    sf = s.document(**{f: v})
                    eq("document", expd, [] if sf is None else [sf.get("serial")], "%s=%r" % (f, v))
                    eq("document_numbers", expd, serials(list(s.document_numbers(**{f: v})), "document_numbers"))
            # ---- searches
            qs = [query.Every(), query.Not(query.Term("t", model.zipf_choice(rng, model.VOCAB))),
                  query.Term("t", model.zipf_choice(rng, model.VOCAB)), query.Every("t"),
                  query.Not(query.Term("id", rng.choice(IDPOOL)))]
            for f in m.unique:
                vals = sorted(m.live_values(live.values(), f) | m.live_values(m.dead.values(), f), key=repr)
                for v in rng.sample(vals, min(3, len(vals))):
                    qs.append(query.Term(f, v))
            for _ in range(5):
                qs.append(gen_delete_query(rng, m))
            # column queries read the sort column instead of postings and have to skip deleted documents themselves
            if "n" in names and ix.schema["n"].column_type and all(lr.has_column("n") for lr, _ in r.leaf_readers()):
                from whoosh.query.qcolumns import ColumnQuery
                nvals = sorted(set(d.get("n") for d in list(live.values()) + list(m.dead.values()) if d.get("n") is not None))
                for v in rng.sample(nvals, min(3, len(nvals))):
                    cq = ColumnQuery("n", v)
                    expc = sorted(sn for sn, d in live.items() if d.get("n") == v)
                    notec = "query %r" % (cq,)
                    self.ctx.count("c07.column_query_checks")
                    eq("search", expc, serials([h.docnum for h in s.search(cq, limit=None)], "search"), notec)
                    eq("docs_for_query", expc, serials(list(s.docs_for_query(cq)), "docs_for_query"), notec)
                    eq("search.unscored", expc, serials([h.docnum for h in s.search(cq, limit=None, scored=False)], "search.unscored"), notec)
                    eq("search.limit.len", len(expc), len(s.search(cq, limit=1)), notec)
            for q in qs:
                try:
                    expd = sorted(sn for sn, d in live.items() if matches(q, d))
                except model.Undecided:
                    continue
                note = "query %r" % (q,)
                eq("search", expd, serials([h.docnum for h in s.search(q, limit=None)], "search"), note)
                eq("docs_for_query", expd, serials(list(s.docs_for_query(q)), "docs_for_query"), note)
                eq("search.unscored", expd, serials([h.docnum for h in s.search(q, limit=None, scored=False)], "search.unscored"), note)
                res = s.search(q, limit=3)
                eq("search.limit.len", len(expd), len(res), note)
                serials([h.docnum for h in res], "search.limit")
                eq("search.sortedby", expd, serials([h.docnum for h in s.search(q, limit=None, sortedby="n")], "search.sortedby"), note)
                eq("search.sortedby.reverse", expd,
                   serials([h.docnum for h in s.search(q, limit=None, sortedby="id", reverse=True)], "search.sortedby.reverse"), note)
                res = s.search(q, limit=None, groupedby=["k", "n"])
                for gname in ("k", "n"):
                    g = res.groups(gname)
                    eq("search.groupedby", expd, serials([dn for dns in g.values() for dn in dns], "search.groupedby"),
                       note + " facet " + gname)
                if expd and len(expd) < len(live):
                    self.ctx.count("c07.search_nontrivial")
            # ---- vectors (live documents only)
            if ix.schema["t"].vector:
                for dn, sf in docs:
                    toks = model.toks(live[sf["serial"]], "t")
                    if not toks:
                        continue
                    self.ctx.count("c07.vector_checks")
                    eq("has_vector", True, bool(r.has_vector(dn, "t")))
                    got = [x.decode("utf8") if isinstance(x, bytes) else x for x in r.vector(dn, "t").all_ids()]
                    eq("vector", sorted(set(toks)), got)
        return dca


def snapshot(st):
    """Logical identity of the committed index (for cancel comparisons)."""
    ix = st.open_index()
    with ix.reader() as r:
        return {"generation": ix.latest_generation(),
                "segments": sorted(seg.segment_id() for seg in (r.segments() or [])),
                "doc_count_all": r.doc_count_all(), "schema": sorted(ix.schema.names())}


# ----------------------------------------------------------------------
# history driver
# ----------------------------------------------------------------------

class History(object):
    def __init__(self, ctx, rng, idx):
        self.ctx, self.rng, self.idx = ctx, rng, idx
        self.log = []
        self.kinds = []
        self.tmpdir = None
        rng_ = rng
        self.mode = rng_.choice(["id", "id", "num", "two"])
        self.vector = rng_.random() < 0.4
        self.sortable = rng_.random() < 0.4
        self.storage = rng_.choice(["ram", "ram", "file"])
        self.blocklimit = rng_.choice([2, 4, 16, 128])
        self.compound = rng_.random() < 0.75
        self.scripted = rng_.random() < 0.3
        self.nsteps = rng_.randint(10, 40)
        self.steps = 0
        self.pattern = {}      # (field, value) -> 1 deleted in segment>0 and committed, 2 merged afterwards
        self.pattern_hit = False
        self.committed_delete = False
        self.commits = 0
        self.cancels = 0

    def wit(self):
        return {"case_idx": self.idx, "config": self.config(), "history": self.log[-60:]}

    def config(self):
        return {"unique": self.mode, "vector": self.vector, "sortable": self.sortable, "storage": self.storage,
                "blocklimit": self.blocklimit, "compound": self.compound}

    def op(self, kind, text):
        self.log.append(text)
        self.kinds.append(kind)
        self.steps += 1
        self.ctx.count("c07.op.%s" % kind)

    def call(self, what, fn, *a, **kw):
        ok, val = self.ctx.guard("c07.op", dict(self.wit(), failing_call=what), fn, *a, **kw)
        if not ok:
            raise Stop()
        return val

    # ---- set up
    def open(self):
        import tempfile
        from whoosh.filedb.filestore import RamStorage, FileStorage
        if self.storage == "file":
            self.tmpdir = tempfile.mkdtemp(prefix="vf-c07-")
            self.st = FileStorage(self.tmpdir)
        else:
            self.st = RamStorage()
        schema = make_schema(self.mode, self.vector, self.sortable)
        self.ix = self.st.create_index(schema)
        self.m = Model(self.mode, schema.names())
        self.cmp = Comparer(self.ctx, self.wit)

    def close(self):
        import shutil
        try:
            ll = getattr(self.cmp, "_longlived", None)
            if ll is not None:
                ll.close()
        except Exception:  # noqa
            pass
        try:
            self.ix.close()
            self.st.close()
        except Exception:  # noqa
            pass
        if self.tmpdir:
            shutil.rmtree(self.tmpdir, ignore_errors=True)

    def writer(self, **kw):
        from whoosh.codec.whoosh3 import W3Codec
        return self.ix.writer(codec=W3Codec(blocklimit=self.blocklimit), compound=self.compound, **kw)

    # ---- layout observation (for choosing doc numbers and for the reach pattern)
    def docmap(self, reader):
        """serial -> (docnum, segment index, deleted?) for every physically present document."""
        offs = [off for _, off in reader.leaf_readers()]
        out = {}
        import bisect
        for dn in range(reader.doc_count_all()):
            try:
                sf = reader.stored_fields(dn)
            except Exception:  # noqa  (identification only)
                continue
            sn = sf.get("serial")
            if sn is not None:
                out[sn] = (dn, bisect.bisect_right(offs, dn) - 1, reader.is_deleted(dn))
        return out

    def mark_deleted(self, sess, serials, dmap):
        for sn in serials:
            d = sess.vis.get(sn)
            if d is None or sn not in dmap:
                continue
            if dmap[sn][1] > 0:
                for f in self.m.unique:
                    if d.get(f) is not None:
                        sess_marks = getattr(sess, "marks", None)
                        if sess_marks is None:
                            sess_marks = sess.marks = set()
                        sess_marks.add((f, d[f]))

    # ---- operations on an open writer
    def fresh_values(self, sess, update):
        """Pick unique values obeying the key discipline. Returns (idv, keyv) or None."""
        m, rng = self.m, self.rng
        vals = {}
        for f, pool in (("id", IDPOOL), ("key", KEYPOOL)):
            if f in m.unique:
                cand = [v for v in pool if v not in sess.written[f]]
                if not update:
                    livev = m.live_values(sess.vis.values(), f) | m.live_values(sess.added, f)
                    cand = [v for v in cand if v not in livev]
                else:
                    # prefer keys that are live (a real replacement), sometimes pattern keys
                    pat = [v for v in cand if self.pattern.get((f, v)) == 2]
                    livev = m.live_values(sess.vis.values(), f)
                    lv = [v for v in cand if v in livev]
                    if pat and rng.random() < 0.7:
                        cand = pat
                    elif lv and rng.random() < 0.75:
                        cand = lv
                if not cand:
                    return None
                vals[f] = rng.choice(cand)
            else:
                vals[f] = rng.choice(pool) if (f == "id" or rng.random() < 0.8) else None
        return vals["id"], vals["key"]

    def do_add(self, w, sess, update):
        m = self.m
        pick = self.fresh_values(sess, update)
        if pick is None:
            return False
        d = gen_doc(self.rng, m, sess, pick[0], pick[1])
        for f in m.unique:
            sess.written[f].add(d[f])
        replaced = []
        if update:
            for f in m.unique:
                replaced += [sn for sn, o in sess.vis.items() if o.get(f) == d[f]]
                if self.pattern.get((f, d[f])) == 2:
                    self.pattern_hit = True
                self.pattern.pop((f, d[f]), None)
            self.op("update", "update_document(%r) replaces serials %r" % (d, sorted(set(replaced))))
            self.call("update_document", w.update_document, **d)
            if replaced:
                self.ctx.count("c07.update_replaced_committed")
            sess.delete(replaced)
        else:
            for f in m.unique:
                self.pattern.pop((f, d[f]), None)
            self.op("add", "add_document(%r)" % (d,))
            self.call("add_document", w.add_document, **d)
        if sess.buffered:
            sess.vis[d["serial"]] = d
        else:
            sess.added.append(d)
        return True

    def do_delete_docnum(self, w, sess):
        rng = self.rng
        with self.call("writer.reader", w.reader) as r:
            dmap = self.docmap(r)
            n_all = r.doc_count_all()
        if rng.random() < 0.12:
            # a stale / out-of-range document number (first number past the last document, or beyond): whether the writer
            # refuses it (it does: IndexingError) or ignores it, it must not change what is deleted - doc_count() and every
            # read API are compared with the model after the commit as usual
            bad = n_all + rng.choice([0, 0, 0, 1, 7])
            self.op("delete_docnum_out_of_range", "delete_document(%d) with %d document numbers in the index" % (bad, n_all))
            try:
                w.delete_document(bad)
            except Exception:  # noqa - the documented refusal
                self.ctx.count("c07.out_of_range_delete_refused")
        cand = [sn for sn in sess.vis if sn in dmap]
        if not cand:
            return False
        late = [sn for sn in cand if dmap[sn][1] > 0]
        sn = rng.choice(late) if late and rng.random() < 0.6 else rng.choice(cand)
        dn = dmap[sn][0]
        self.mark_deleted(sess, [sn], dmap)
        self.op("delete_docnum", "delete_document(%d) [serial %d, segment %d]" % (dn, sn, dmap[sn][1]))
        before = self.call("writer.deleted_count", w.deleted_count)
        self.call("delete_document", w.delete_document, dn)
        sess.delete([sn])
        self.writer_view(w, dn, True, before + 1)
        if rng.random() < 0.15:
            self.op("delete_docnum_again", "delete_document(%d) again" % dn)
            self.call("delete_document", w.delete_document, dn)
            self.writer_view(w, dn, True, before + 1)
        return True

    def writer_view(self, w, dn, deleted, count):
        """The writer's own view of its pending deletions."""
        self.ctx.count("c07.api_checks")
        obs = self.call("writer.is_deleted", lambda: (bool(w.is_deleted(dn)), w.deleted_count(), bool(w.has_deletions())))
        exp = (deleted, count, count > 0)
        if obs != exp:
            self.ctx.fail("c07.read", "writer.is_deleted/deleted_count/has_deletions",
                          dict(self.wit(), docnum=dn, expected=exp, observed=obs))
            raise Stop()

    def do_undelete(self, w, sess):
        rng, m = self.rng, self.m
        with self.call("writer.reader", w.reader) as r:
            dmap = self.docmap(r)
        def collides(d):
            for f in m.unique:
                v = d.get(f)
                if v in sess.written[f] or v in m.live_values(sess.vis.values(), f):
                    return True
            return False
        mine = [sn for sn in sess.gone if sn in dmap and dmap[sn][2] and not collides(sess.gone[sn])]
        old = []
        for sn, d in m.dead.items():
            if sn in dmap and dmap[sn][2] and sn not in sess.gone and sn not in sess.res:
                ok = True
                for f in m.unique:
                    v = d.get(f)
                    if v in sess.written[f] or v in m.live_values(sess.vis.values(), f) or v in m.live_values(sess.gone.values(), f):
                        ok = False
                if ok:
                    old.append(sn)
        if mine and (not old or rng.random() < 0.6):
            sn = rng.choice(sorted(mine))
            self.op("undelete", "delete_document(%d, delete=False) [serial %d deleted by this writer]" % (dmap[sn][0], sn))
            before = self.call("writer.deleted_count", w.deleted_count)
            self.call("delete_document(delete=False)", w.delete_document, dmap[sn][0], delete=False)
            sess.vis[sn] = sess.gone.pop(sn)
            self.writer_view(w, dmap[sn][0], False, before - 1)
            return True
        if old:
            sn = rng.choice(sorted(old))
            d = m.dead[sn]
            self.op("undelete", "delete_document(%d, delete=False) [serial %d deleted by an earlier commit]" % (dmap[sn][0], sn))
            self.ctx.count("c07.undelete_committed_deletion")
            self.call("delete_document(delete=False)", w.delete_document, dmap[sn][0], delete=False)
            sess.vis[sn] = d
            sess.res[sn] = d
            for f in m.unique:
                sess.written[f].add(d.get(f))
            return True
        return False

    def do_delete_by(self, w, sess, target=None):
        """delete_by_term / delete_by_query on writer-like object `w`; checks the return value."""
        from whoosh import query
        from vf import model
        rng, m = self.rng, self.m
        if rng.random() < 0.5:
            # by term
            r = rng.random()
            f = rng.choice(m.unique) if r < 0.6 else rng.choice(["id", "key", "t", "k", "n"])
            if f == "id":
                livev = sorted(m.live_values(sess.vis.values(), "id"))
                v = rng.choice(livev) if livev and rng.random() < 0.8 else rng.choice(IDPOOL)
            elif f == "key":
                livev = sorted(m.live_values(sess.vis.values(), "key"))
                v = rng.choice(livev) if livev and rng.random() < 0.8 else rng.choice(KEYPOOL)
            elif f == "t":
                v = model.zipf_choice(rng, model.VOCAB)
            elif f == "k":
                v = rng.choice(model.KVOCAB)
            else:
                v = rng.randint(-5, 5)
            hit = [sn for sn, d in sess.vis.items() if has_term(d, f, v)]
            kind, text, fn, args = "delete_by_term", "delete_by_term(%r, %r)" % (f, v), w.delete_by_term, (f, v)
        else:
            for _ in range(5):
                q = gen_delete_query(rng, sess)
                try:
                    hit = [sn for sn, d in sess.vis.items() if matches(q, d)]
                except model.Undecided:
                    continue
                break
            else:
                return False
            if len(hit) > 6 and rng.random() < 0.7:
                return False   # keep the index populated
            kind, text, fn, args = "delete_by_query", "delete_by_query(%r)" % (q,), w.delete_by_query, (q,)
        if not sess.buffered and hit:
            with self.call("writer.reader", w.reader) as r:
                self.mark_deleted(sess, hit, self.docmap(r))
        self.op(kind, "%s expects %d removed: serials %r" % (text, len(hit), sorted(hit)))
        got = self.call(kind, fn, *args)
        sess.delete(hit)
        if got is not None or not isinstance(w, type(self.ix)):
            self.ctx.count("c07.delete_count_checks")
            if hit:
                self.ctx.count("c07.delete_count_nonzero")
            if got != len(hit):
                self.ctx.fail("c07.delete_count", kind, dict(self.wit(), expected_return=len(hit), observed_return=got),
                              "%s returned %r, %d live documents match" % (text, got, len(hit)))
                raise Stop()
        return True

    # ---- sessions
    def finish_commit(self, sess, before_segments, how):
        """After a successful commit: fold the session into the model, observe merges, compare."""
        m = self.m
        sess.commit_into(m)
        if sess.gone:
            self.committed_delete = True
        for key in getattr(sess, "marks", ()):  # deleted while sitting in a non-first segment
            if any(d.get(key[0]) == key[1] for d in sess.gone.values()):
                self.pattern[key] = 1
        snap = snapshot(self.st)
        if before_segments is not None and not set(before_segments) <= set(snap["segments"]):
            self.ctx.count("c07.commits_that_merged")
            for key, stt in list(self.pattern.items()):
                if stt == 1:
                    self.pattern[key] = 2
        self.commits += 1
        self.ctx.count("c07.commits_compared")
        self.ctx.count("c07.commit.%s" % how)
        self.ctx.count("c07.segments_after_commit", len(snap["segments"]))
        self.cmp.compare(self.st, m, self.rng, "commit")

    def finish_cancel(self, before, how):
        self.cancels += 1
        self.ctx.count("c07.cancels_compared")
        self.ctx.count("c07.cancel.%s" % how)
        after = snapshot(self.st)
        self.ctx.count("c07.api_checks")
        if after != before:
            self.ctx.fail("c07.cancel", how, dict(self.wit(), before=before, after=after), "index identity changed by a cancelled writer")
            raise Stop()
        self.cmp.compare(self.st, self.m, self.rng, "cancel")

    def random_ops(self, w, sess, n, allow_field_ops=True):
        rng = self.rng
        done = 0
        tries = 0
        while done < n and tries < n * 4:
            tries += 1
            r = rng.random()
            if r < 0.30:
                ok = self.do_add(w, sess, update=True)
            elif r < 0.48:
                ok = self.do_add(w, sess, update=False)
            elif r < 0.64:
                ok = self.do_delete_docnum(w, sess) if not sess.buffered else self.do_buffered_delete_docnum(w, sess)
            elif r < 0.72:
                ok = self.do_undelete(w, sess) if not sess.buffered else False
            else:
                ok = self.do_delete_by(w, sess)
            if ok:
                done += 1

    def field_op(self, w, sess):
        """add_field / remove_field at the start of a writer (before data is added)."""
        from whoosh import fields
        rng, m = self.rng, self.m
        xs = sorted(f for f in sess.fields if f.startswith("x"))
        if xs and rng.random() < 0.55:
            f = rng.choice(xs)
            self.op("remove_field", "remove_field(%r)" % f)
            self.call("remove_field", w.remove_field, f)
            sess.fields.discard(f)
            return f, False
        f = "x%d" % m.xcount
        m.xcount += 1
        self.op("add_field", "add_field(%r, KEYWORD(stored=True))" % f)
        self.call("add_field", w.add_field, f, fields.KEYWORD(stored=True))
        sess.fields.add(f)
        return f, True

    def strip_field(self, f):
        for coll in (self.m.live, self.m.dead):
            for d in coll.values():
                d.pop(f, None)

    def session(self, forced=None):
        """One writer from opening to commit/cancel."""
        rng, m = self.rng, self.m
        kind = forced or rng.choices(["plain", "with", "with_exc", "cancel", "buffered", "index_api"],
                                     weights=[42, 12, 10, 12, 9, 15])[0]
        if kind == "buffered":
            return self.buffered_session()
        if kind == "index_api":
            return self.index_api_session()
        before = snapshot(self.st)
        sess = Session(m)
        nops = rng.randint(1, 7)
        self.log.append("-- writer (%s)" % kind)
        removed = None
        if kind in ("plain", "cancel"):
            w = self.call("Index.writer", self.writer)
            try:
                if rng.random() < 0.15:
                    f, added = self.field_op(w, sess)
                    removed = None if added else f
                self.random_ops(w, sess, nops)
            except Stop:
                self.safe_cancel(w)
                raise
            if kind == "cancel":
                self.op("cancel", "cancel()")
                self.call("cancel", w.cancel)
                return self.finish_cancel(before, "cancel()")
            how = rng.choices(["merge=False", "default", "optimize=True"], weights=[5, 3, 2])[0]
            self.op("commit:" + how, "commit(%s)" % ("" if how == "default" else how))
            kw = {"merge=False": {"merge": False}, "default": {}, "optimize=True": {"optimize": True}}[how]
            self.call("commit", w.commit, **kw)
            if removed:
                self.strip_field(removed)
            return self.finish_commit(sess, before["segments"], how)
        # with-block variants
        class Boom(Exception):
            pass
        how = rng.choice(["default", "default", "merge=False", "optimize=True"])
        try:
            def body():
                with self.writer() as w:
                    if how == "merge=False":
                        w.merge = False
                    elif how == "optimize=True":
                        w.optimize = True
                    self.random_ops(w, sess, nops)
                    if kind == "with_exc":
                        self.op("raise", "raise inside the with-block")
                        raise Boom()
                    self.op("commit:" + how, "end of with-block (%s)" % how)
            body()
        except Boom:
            return self.finish_cancel(before, "exception in with-block")
        except Stop:
            raise
        except Exception as e:  # commit at block exit failed inside whoosh
            from vf.core import whoosh_site
            site, in_harness = whoosh_site(e)
            if in_harness:
                raise
            self.ctx.fail("c07.op", "exc:%s@%s" % (type(e).__name__, site), dict(self.wit(), failing_call="with-block exit"), repr(e))
            raise Stop()
        return self.finish_commit(sess, before["segments"], how)

    def safe_cancel(self, w):
        try:
            w.cancel()
        except Exception:  # noqa
            pass

    def index_api_session(self):
        """Index-level conveniences (each is a writer + commit of its own)."""
        rng, m = self.rng, self.m
        before = snapshot(self.st)
        sess = Session(m)
        r = rng.random()
        self.log.append("-- Index-level call")
        if r < 0.45:
            if not self.do_delete_by(self.ix, sess):
                return
            how = "Index.delete_by"
        elif r < 0.75:
            self.op("optimize", "Index.optimize()")
            self.call("Index.optimize", self.ix.optimize)
            how = "Index.optimize"
        else:
            f, added = self.field_op(self.ix, sess)
            if not added:
                self.strip_field(f)
            how = "Index.add_field/remove_field"
        self.finish_commit(sess, before["segments"], how)

    # ---- BufferedWriter
    def do_buffered_delete_docnum(self, bw, sess):
        rng = self.rng
        with self.call("BufferedWriter.reader", bw.reader) as r:
            pairs = [(dn, sf.get("serial")) for dn, sf in r.iter_docs()]
        pairs = [(dn, sn) for dn, sn in pairs if sn in sess.vis]
        if not pairs:
            return False
        dn, sn = rng.choice(pairs)
        if sn not in self.m.live:
            self.ctx.count("c07.buffered_delete_of_buffered_doc")
        self.op("delete_docnum", "BufferedWriter.delete_document(%d) [serial %d]" % (dn, sn))
        self.call("BufferedWriter.delete_document", bw.delete_document, dn)
        sess.delete([sn])
        return True

    def buffered_session(self):
        from whoosh.writing import BufferedWriter
        rng, m = self.rng, self.m
        limit = rng.choice([2, 3, 5, 100])
        merge = rng.random() < 0.5
        self.ctx.count("c07.buffered_sessions")
        self.log.append("-- BufferedWriter(limit=%d, commitargs merge=%s)" % (limit, merge))
        before = snapshot(self.st)
        bw = self.call("BufferedWriter", BufferedWriter, self.ix, period=None, limit=limit,
                       commitargs={} if merge else {"merge": False})
        sess = Session(m, buffered=True)
        try:
            rounds = rng.randint(1, 3)
            for i in range(rounds):
                self.random_ops(bw, sess, rng.randint(1, 6))
                last = i == rounds - 1
                self.op("commit:buffered", "BufferedWriter.%s" % ("close()" if last else "commit()"))
                self.call("BufferedWriter.commit", bw.close if last else bw.commit)
                # everything so far is committed: fold into the model
                m.live = dict(sess.vis)
                for sn, d in sess.gone.items():
                    m.dead[sn] = d
                if sess.gone:
                    self.committed_delete = True
                self.commits += 1
                self.ctx.count("c07.commits_compared")
                self.ctx.count("c07.commit.buffered")
                self.cmp.compare(self.st, m, rng, "commit")
        except Stop:
            try:
                bw.close()
            except Exception:  # noqa
                pass
            raise
        # buffered commits may merge; pattern bookkeeping
        after = snapshot(self.st)
        if not set(before["segments"]) <= set(after["segments"]):
            for key, stt in list(self.pattern.items()):
                if stt == 1:
                    self.pattern[key] = 2

    # ---- scripted prefix reaching the floor pattern
    def scripted_prefix(self):
        """2..3 unmerged segments, delete a key sitting in a non-first segment, merge, update the same key."""
        rng, m = self.rng, self.m
        for _ in range(rng.randint(2, 3)):
            before = snapshot(self.st)
            sess = Session(m)
            self.log.append("-- writer (scripted add)")
            w = self.call("Index.writer", self.writer)
            try:
                for _ in range(rng.randint(1, 4)):
                    self.do_add(w, sess, update=rng.random() < 0.3)
            except Stop:
                self.safe_cancel(w)
                raise
            self.op("commit:merge=False", "commit(merge=False)")
            self.call("commit", w.commit, merge=False)
            self.finish_commit(sess, before["segments"], "merge=False")
        # delete in a non-first segment
        before = snapshot(self.st)
        sess = Session(m)
        self.log.append("-- writer (scripted delete in a non-first segment)")
        w = self.call("Index.writer", self.writer)
        try:
            with self.call("writer.reader", w.reader) as r:
                dmap = self.docmap(r)
            late = sorted(sn for sn in sess.vis if sn in dmap and dmap[sn][1] > 0)
            if late:
                sn = rng.choice(late)
                d = sess.vis[sn]
                self.mark_deleted(sess, [sn], dmap)
                f = rng.choice(m.unique)
                if rng.random() < 0.5:
                    self.op("delete_docnum", "delete_document(%d) [serial %d, segment %d]" % (dmap[sn][0], sn, dmap[sn][1]))
                    self.call("delete_document", w.delete_document, dmap[sn][0])
                    sess.delete([sn])
                else:
                    hit = [s2 for s2, o in sess.vis.items() if o.get(f) == d[f]]
                    self.op("delete_by_term", "delete_by_term(%r, %r) expects %d" % (f, d[f], len(hit)))
                    got = self.call("delete_by_term", w.delete_by_term, f, d[f])
                    self.ctx.count("c07.delete_count_checks")
                    if got != len(hit):
                        self.ctx.fail("c07.delete_count", "delete_by_term", dict(self.wit(), expected_return=len(hit), observed_return=got))
                        raise Stop()
                    sess.delete(hit)
        except Stop:
            self.safe_cancel(w)
            raise
        how = rng.choice(["merge=False", "optimize=True", "default"])
        self.op("commit:" + how, "commit(%s)" % how)
        self.call("commit", w.commit, **{"merge=False": {"merge": False}, "default": {}, "optimize=True": {"optimize": True}}[how])
        self.finish_commit(sess, before["segments"], how)
        if how == "merge=False":
            if rng.random() < 0.5:
                before = snapshot(self.st)
                self.log.append("-- Index-level call")
                self.op("optimize", "Index.optimize()")
                self.call("Index.optimize", self.ix.optimize)
                self.finish_commit(Session(m), before["segments"], "Index.optimize")
            else:
                self.session(forced="plain")
        # the update of the same key comes from fresh_values() preferring pattern keys
        before = snapshot(self.st)
        sess = Session(m)
        self.log.append("-- writer (scripted update)")
        w = self.call("Index.writer", self.writer)
        try:
            for _ in range(rng.randint(1, 3)):
                self.do_add(w, sess, update=True)
        except Stop:
            self.safe_cancel(w)
            raise
        how = rng.choice(["merge=False", "default"])
        self.op("commit:" + how, "commit(%s)" % how)
        self.call("commit", w.commit, **({"merge": False} if how == "merge=False" else {}))
        self.finish_commit(sess, before["segments"], how)

    def run(self):
        self.open()
        try:
            if self.scripted:
                self.scripted_prefix()
            else:
                # start with some content
                self.session(forced="plain")
            while self.steps < self.nsteps:
                self.session()
        except Stop:
            self.ctx.count("c07.histories_stopped_at_disagreement")
        finally:
            self.close()


def dup_key_case(ctx, rng, idx):
    """Outside the update discipline: add_document() does not enforce uniqueness, so several live documents may carry
    one value of a unique=True field. delete_by_term / delete_by_query must still remove exactly the live documents
    that match (and report their number), whatever the field's flags and wherever the documents sit."""
    from whoosh import fields, query
    from whoosh.filedb.filestore import RamStorage
    kind = rng.choice(["ID", "NUMERIC"])
    keyf = fields.ID(stored=True, unique=True) if kind == "ID" else fields.NUMERIC(int, stored=True, unique=True)
    schema = fields.Schema(key=keyf, serial=fields.NUMERIC(int, stored=True), t=fields.TEXT)
    ix = RamStorage().create_index(schema)
    keys = [u"k1", u"k2", u"k3"] if kind == "ID" else [1, 2, 3]
    serial = 0
    log = []
    w = {"variant": "dup-key", "unique_field": kind, "log": log, "case_idx": idx}

    def body():
        nonlocal serial
        committed = {}   # serial -> key, live and committed
        for c in range(rng.randint(2, 4)):
            wr = ix.writer()
            gone = set()
            added = {}
            for _ in range(rng.randint(1, 5)):
                if committed and rng.random() < 0.35:
                    k = rng.choice(keys)
                    exp = sorted(sn for sn, kk in committed.items() if kk == k and sn not in gone)
                    how = rng.choice(["term", "query"])
                    got = wr.delete_by_term("key", k) if how == "term" else wr.delete_by_query(query.Term("key", k))
                    log.append("delete_by_%s(key=%r) -> %r (live committed matches: serials %r)" % (how, k, got, exp))
                    ctx.count("c07.dupkey.deletes")
                    if len(exp) > 1:
                        ctx.count("c07.dupkey.deletes_of_duplicated_key")
                    if got != len(exp):
                        ctx.fail("c07.dupkey", "delete_by_%s-return-value:%s" % (how, kind), w,
                                 "returned %r but %d live documents carry the key" % (got, len(exp)))
                        wr.cancel()
                        return
                    gone.update(exp)
                else:
                    k = rng.choice(keys)
                    wr.add_document(key=k, serial=serial, t=u"alfa bravo")
                    log.append("add_document(key=%r, serial=%d)" % (k, serial))
                    added[serial] = k
                    serial += 1
            wr.commit(merge=rng.random() < 0.5)
            log.append("commit")
            for sn in gone:
                committed.pop(sn, None)
            committed.update(added)
            with ix.searcher() as s:
                ctx.count("c07.dupkey.commit_checks")
                seen = sorted(f["serial"] for f in s.all_stored_fields())
                if seen != sorted(committed) or s.doc_count() != len(committed):
                    ctx.fail("c07.dupkey", "live-set-after-commit:%s" % kind, w,
                             "serials in index %r (doc_count %d), model %r" % (seen, s.doc_count(), sorted(committed)))
                    return
                for k in keys:
                    got = sorted(h["serial"] for h in s.search(query.Term("key", k), limit=None))
                    exp = sorted(sn for sn, kk in committed.items() if kk == k)
                    if got != exp:
                        ctx.fail("c07.dupkey", "term-search-after-commit:%s" % kind, w, "key %r: %r, model %r" % (k, got, exp))
                        return
    ctx.guard("c07.dupkey", w, body)


def topn_deleted_case(ctx, rng, idx):
    """Deleted documents in the way of a block-skipping top-N search: a few hundred documents share frequent words (posting
    lists of many small blocks); the STRONGEST documents (and documents at block starts) are then deleted or replaced
    through update_document(); every limited scored search must return live documents only - the best live ones - and
    len(results) must be the number of live matching documents."""
    from whoosh import fields, query, scoring
    from whoosh.codec.whoosh3 import W3Codec
    from whoosh.filedb.filestore import RamStorage
    bl = rng.choice([4, 8, 16, 32])
    n = rng.randint(120, 360)
    words = ["alfa", "bravo", "charlie"]
    schema = fields.Schema(id=fields.ID(stored=True, unique=True), t=fields.TEXT(stored=True))
    ix = RamStorage().create_index(schema)
    docs = {}
    w = ix.writer(codec=W3Codec(blocklimit=bl))
    for i in range(n):
        strong = rng.random() < 0.06 or (i % bl == 0 and rng.random() < 0.5)
        toks = []
        for wd in words:
            if rng.random() < 0.75:
                toks += [wd] * (rng.randint(6, 12) if strong else rng.randint(1, 2))
        toks += ["filler"] * rng.randint(0, 6)
        rng.shuffle(toks)
        docs[str(i)] = {"t": " ".join(toks), "strong": strong, "version": 0}
        w.add_document(id=str(i), t=" ".join(toks))
    w.commit()
    wit = {"case_idx": idx, "docs": n, "blocklimit": bl}
    victims = [k for k, d in docs.items() if d["strong"]]
    rng.shuffle(victims)
    w = ix.writer(codec=W3Codec(blocklimit=bl))
    deleted, updated = [], []
    for k in victims[:max(2, len(victims) * 2 // 3)]:
        if rng.random() < 0.6:
            w.delete_by_term("id", k)
            del docs[k]
            deleted.append(k)
        else:
            docs[k] = {"t": "filler " + rng.choice(words), "strong": False, "version": 1}
            w.update_document(id=k, t=docs[k]["t"])
            updated.append(k)
    w.commit(merge=False)
    wit.update(deleted=deleted[:20], updated=updated[:20])
    ctx.count("c07.topn.cases")
    try:
        for wname, wobj in (("BM25F", scoring.BM25F()), ("TF_IDF", scoring.TF_IDF()), ("Frequency", scoring.Frequency())):
            with ix.searcher(weighting=wobj) as s:
                qs = [query.Term("t", wd) for wd in words]
                qs += [query.Or([query.Term("t", "alfa"), query.Term("t", "bravo")]),
                       query.And([query.Term("t", "alfa"), query.Term("t", "charlie")]),
                       query.AndMaybe(query.Term("t", "bravo"), query.Term("t", "charlie"))]
                for q in qs:
                    w2 = dict(wit, query=repr(q), weighting=wname)
                    ok, full = ctx.guard("c07.topn", w2, lambda: [(h["id"], h["t"], h.score) for h in s.search(q, limit=None)])
                    if not ok:
                        continue
                    for k in (1, 2, 3, 5, 10):
                        ctx.count("c07.topn.searches")
                        ok, res = ctx.guard("c07.topn", dict(w2, limit=k), lambda: (lambda r: ([(h["id"], h["t"], h.score) for h in r], len(r)))(s.search(q, limit=k)))
                        if not ok:
                            break
                        top, total = res
                        dead = [(i_, t_) for i_, t_, _ in top if i_ not in docs or docs[i_]["t"] != t_]
                        if dead:
                            ctx.fail("c07.topn", "deleted-document-returned-by-limited-search", dict(w2, limit=k, hits=top[:10]),
                                     "hit %r is a deleted / replaced document" % (dead[0],))
                            break
                        if total != len(full):
                            ctx.fail("c07.topn", "len(limited results)", dict(w2, limit=k), "len=%d, %d live documents match" % (total, len(full)))
                            break
                        best = sorted((sc for _, _, sc in full), reverse=True)[:k]
                        if [round(sc, 6) for _, _, sc in top] != [round(sc, 6) for sc in best]:
                            ctx.fail("c07.topn", "limited-search-misses-best-live-documents", dict(w2, limit=k, hits=top[:10], best_scores=best),
                                     "scores of the top %d differ from the best live scores" % k)
                            break
    finally:
        ix.close()
    ctx.case(("topn-deleted", bl, bool(deleted), bool(updated)), bool(deleted or updated))


def run(ctx):
    from vf import model
    model.check_analysis()
    for idx in ctx.cases(quick=48, thorough=240):
        rng = ctx.rng(idx)
        ctx.reseed_global(idx)
        if idx % 4 == 1:
            dup_key_case(ctx, ctx.rng(idx, "dupkey"), idx)
        if idx % 4 == 3:
            topn_deleted_case(ctx, ctx.rng(idx, "topn-deleted"), idx)
        h = History(ctx, rng, idx)
        h.run()
        ctx.count("c07.histories")
        ctx.count("c07.mode.%s" % h.mode)
        ctx.count("c07.steps", h.steps)
        if h.pattern_hit:
            ctx.count("c07.pattern_delete_nonfirst_merge_update")
        nontrivial = h.committed_delete and h.commits >= 2
        if nontrivial:
            ctx.count("c07.nontrivial")
        shape = (h.mode, tuple(h.kinds))
        ctx.case(shape, nontrivial,
                 sample={"config": h.config(), "history": h.log[:40], "commits": h.commits, "cancels": h.cancels}
                 if idx % 40 == 0 else None)
