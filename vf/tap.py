"""Storage tap (DESIGN section 0 item 3, section 2): an exact, ordered log of the file-system traffic of whoosh.

Installed *from the harness* (no repository edit): every access of `FileStorage` to the file system goes
through module globals of `whoosh.filedb.filestore` (`open`, `os.*`, `FileLock`).  `Tap.install()` shadows
those names in the module namespace:

    filestore.open      -> Tap._open       (write handles are wrapped in FileProxy, read handles are the real objects)
    filestore.os        -> OsProxy         (remove / rename / rmdir / mkdir / makedirs / listdir / open / fdopen;
                                            os.path -> PathProxy: exists / getsize / getmtime / isdir)
    filestore.FileLock  -> TappedLock      (acquire / release of the flock()-based WRITELOCK)
    (optional, tap_ram=True) RamStorage.create_file/open_file/delete_file/rename_file/list/lock

Everything else in whoosh reaches the disk only through a Storage object (checked by grep on the pinned
tree): compound.py (CompoundStorage is a FileStorage subclass, uses only os.SEEK_END), codec/*, index.py
(TOC read/write via storage.create_file/open_file/rename_file), writing.py (PostingPool overrides the run
file methods of externalsort.SortingPool to use the writer's temp storage `<dir>/<indexname>.tmp/`).
NOT covered (documented): `whoosh.index.exists_in` -> os.path.exists (read only);
`externalsort.SortingPool.cleanup` -> os.remove(<relative run name>) which can only hit the cwd (it fails
silently; the run files are removed by `_tempstorage.destroy()` which IS tapped); `RamStorage.temp_storage`
creates a FileStorage under tempfile.gettempdir() (tapped through filestore, but outside any `root`).

API
---
    tap = Tap(root=None, unbuffered=True, track=True, tap_ram=False)
    tap.install() / tap.uninstall()            (or `with tap:`); only one tap can be installed at a time
    tap.on_event = fn(n, kind, name, detail)   called synchronously, in the calling thread, OUTSIDE the tap's
                                               own lock, *before* the operation is performed (so "the process
                                               died just before event n" == the state seen inside the callback).
                                               The callback may block (cooperative scheduler), raise (abort the
                                               operation) or kill the process.
    tap.on_done = fn(n, kind, result)          optional, called right AFTER the operation of pre-event n completed (same
                                               thread, outside the lock); tap.completed = [n, ...] in completion order
    tap.events                                 ordered log [(n, thread-index, kind, name, nbytes)]
    tap.pause() / tap.resume() / with tap.muted():   global / per-thread switch (no events, plain passthrough)
    tap.open_states(under=None)                FileState objects of files currently open for writing
    tap.materialize(src, dst, variant, rng)    crash snapshot of directory `src` (see below)

Event kinds (all are *pre*-operation unless noted):
    open-r (read open)   create (open 'w'/'x' or O_CREAT: creates/truncates)   open-rw ('a', 'r+')
    write  flush  seek  truncate  close                       (only for handles opened for writing)
    remove  rename (name = destination, detail = source)  mkdir  makedirs  rmdir  listdir  stat
    lock-acquire   lock-acquired / lock-failed (post, result of acquire)   lock-release   lock-released (post)
`MUTATING` is the set of kinds after which the directory content (or the set of possible crash states) may
have changed.

Crash model: files opened for writing are opened *unbuffered* (every write reaches the OS at once) and the
tap records per file the ordered stream of writes (position, bytes) and the length of the stream prefix that
is guaranteed to be on disk in a real process (everything up to the last explicit flush / seek / truncate /
close: CPython's BufferedWriter flushes on those and otherwise keeps up to a buffer of bytes in user space,
which a SIGKILL loses).  `materialize` copies the directory and rewrites every still-open file as
    variant "full"    : all writes applied (the unbuffered on-disk state),
    variant "flushed" : only the stream prefix up to the last flush point,
    variant "mid"     : a random cut strictly between the two (per file, drawn from `rng`).
Thread safety: the log and the file states are guarded by one lock; callbacks run outside it.
"""
import builtins
import os
import shutil
import threading

MUTATING = frozenset([
    "create", "open-rw", "write", "flush", "seek", "truncate", "close",
    "remove", "rename", "mkdir", "makedirs", "rmdir", "lock-acquired", "lock-released",
])
READONLY = frozenset(["open-r", "listdir", "stat", "lock-acquire", "lock-failed", "lock-release"])

_ACTIVE = None
_MISSING = object()


class FileState(object):
    """Write history of one file opened for writing through the tap."""
    __slots__ = ("path", "mode", "base", "ops", "total", "flushed", "closed", "removed", "nwrites")

    def __init__(self, path, mode, base=b""):
        self.path = path
        self.mode = mode
        self.base = base        # content at open time ('a' / 'r+'); empty for 'w'
        self.ops = []           # ("w", pos, bytes) | ("t", size, b"")
        self.total = 0          # bytes in the write stream so far
        self.flushed = 0        # stream prefix guaranteed on disk in a buffered process
        self.closed = False
        self.removed = False
        self.nwrites = 0

    def content(self, cut=None):
        """File content when only the first `cut` bytes of the write stream reached the disk."""
        if cut is None:
            cut = self.total
        buf = bytearray(self.base)
        left = cut
        for kind, pos, data in self.ops:
            if kind == "t":
                if left < 0:
                    break
                if pos < len(buf):
                    del buf[pos:]
                else:
                    buf.extend(b"\0" * (pos - len(buf)))
                continue
            if left <= 0:
                break
            d = data[:left]
            if pos > len(buf):
                buf.extend(b"\0" * (pos - len(buf)))
            buf[pos:pos + len(d)] = d
            left -= len(d)
        return bytes(buf)

    def cuts(self):
        return self.flushed, self.total


class FileProxy(object):
    """Wraps a real (unbuffered) file object opened for writing; every write/flush/seek/truncate/close
    is a tap event and is recorded in the FileState."""

    def __init__(self, tap, f, path, state, text=False):
        self.__dict__["_tap"] = tap
        self.__dict__["_f"] = f
        self.__dict__["_path"] = path
        self.__dict__["_st"] = state
        self.__dict__["_text"] = text

    # -- mutating calls -------------------------------------------------
    def write(self, b):
        tap = self._tap
        if self._text:
            data = b.encode("utf-8")
            tap._emit("write", self._st.path if self._st else self._path, len(data), len(data))
            n = self._f.write(b)
            self._f.flush()
            st = self._st
            if st is not None:
                with tap._lock:
                    pos = len(st.content())
                    st.ops.append(("w", pos, data))
                    st.total += len(data)
                    st.nwrites += 1
            return n
        data = bytes(b)
        ev = tap._emit("write", self._st.path if self._st else self._path, len(data), len(data))
        f = self._f
        st = self._st
        pos = f.tell() if st is not None else 0
        if st is not None and "a" in st.mode:
            pos = len(st.content())
        done = 0
        while done < len(data):
            n = f.write(data[done:] if done else data)
            if n is None:       # buffered object (unbuffered=False)
                n = len(data) - done
            done += n
        if st is not None:
            with tap._lock:
                st.ops.append(("w", pos, data))
                st.total += len(data)
                st.nwrites += 1
        tap._done(ev, "write")
        return len(data)

    def writelines(self, lines):
        for ln in lines:
            self.write(ln)

    def flush(self):
        ev = self._tap._emit("flush", self._st.path if self._st else self._path)
        r = self._f.flush()
        st = self._st
        if st is not None:
            st.flushed = st.total
        self._tap._done(ev, "flush")
        return r

    def seek(self, *a):
        ev = self._tap._emit("seek", self._st.path if self._st else self._path, 0, a)
        r = self._f.seek(*a)
        st = self._st
        if st is not None and self._tap.seek_flushes:
            st.flushed = st.total
        self._tap._done(ev, "seek")
        return r

    def truncate(self, *a):
        ev = self._tap._emit("truncate", self._st.path if self._st else self._path, 0, a)
        r = self._f.truncate(*a)
        st = self._st
        if st is not None:
            with self._tap._lock:
                st.ops.append(("t", r if r is not None else self._f.tell(), b""))
                st.flushed = st.total
        self._tap._done(ev, "truncate")
        return r

    def close(self):
        if self._f.closed:
            return None
        tap = self._tap
        ev = tap._emit("close", self._st.path if self._st else self._path)
        r = self._f.close()
        st = self._st
        if st is not None:
            with tap._lock:
                st.flushed = st.total
                st.closed = True
                if tap._open.get(st.path) is st:
                    del tap._open[st.path]
        tap._done(ev, "close")
        return r

    def __del__(self):
        # CPython closes (and thereby flushes) a dropped file object at once; mirror that silently (no event:
        # a finalizer must never block in a scheduler callback) so that the crash model stays faithful.
        try:
            f = self.__dict__.get("_f")
            st = self.__dict__.get("_st")
            if f is not None and not f.closed:
                f.close()
                if st is not None and not st.closed:
                    tap = self._tap
                    with tap._lock:
                        st.flushed = st.total
                        st.closed = True
                        if tap._open.get(st.path) is st:
                            del tap._open[st.path]
                    tap.gc_closed += 1
        except Exception:  # noqa
            pass

    # -- passthrough ----------------------------------------------------
    def __getattr__(self, a):
        return getattr(self._f, a)

    def __setattr__(self, a, v):
        setattr(self._f, a, v)

    def __enter__(self):
        return self

    def __exit__(self, *a):
        self.close()

    def __iter__(self):
        return iter(self._f)

    def __repr__(self):
        return "<FileProxy %r>" % (self._path,)


class PathProxy(object):
    def __init__(self, tap):
        self._tap = tap

    def __getattr__(self, a):
        return getattr(os.path, a)

    def exists(self, p):
        self._tap._emit("stat", p)
        return os.path.exists(p)

    def getsize(self, p):
        self._tap._emit("stat", p)
        return os.path.getsize(p)

    def getmtime(self, p):
        self._tap._emit("stat", p)
        return os.path.getmtime(p)

    def isdir(self, p):
        self._tap._emit("stat", p)
        return os.path.isdir(p)


class OsProxy(object):
    """Stands in for the `os` module inside whoosh.filedb.filestore."""

    def __init__(self, tap):
        self._tap = tap
        self.path = PathProxy(tap)
        self._fdpaths = {}

    def __getattr__(self, a):
        return getattr(os, a)

    def remove(self, p):
        tap = self._tap
        ev = tap._emit("remove", p)
        r = os.remove(p)
        tap._forget(p)
        tap._done(ev, "remove")
        return r

    unlink = remove

    def rename(self, a, b):
        tap = self._tap
        ev = tap._emit("rename", b, 0, tap._rel(a))
        r = os.rename(a, b)
        tap._moved(a, b)
        tap._done(ev, "rename")
        return r

    def replace(self, a, b):
        tap = self._tap
        ev = tap._emit("rename", b, 0, tap._rel(a))
        r = os.replace(a, b)
        tap._moved(a, b)
        tap._done(ev, "rename")
        return r

    def rmdir(self, p):
        ev = self._tap._emit("rmdir", p)
        r = os.rmdir(p)
        self._tap._done(ev, "rmdir")
        return r

    def mkdir(self, p, *a, **k):
        ev = self._tap._emit("mkdir", p)
        r = os.mkdir(p, *a, **k)
        self._tap._done(ev, "mkdir")
        return r

    def makedirs(self, p, *a, **k):
        # only an event (and a mutation) when something will be created
        if os.path.isdir(p):
            ev, kind = self._tap._emit("stat", p), "stat"
        else:
            ev, kind = self._tap._emit("makedirs", p), "makedirs"
        try:
            return os.makedirs(p, *a, **k)
        finally:
            self._tap._done(ev, kind)

    def listdir(self, p="."):
        ev = self._tap._emit("listdir", p)
        r = os.listdir(p)
        self._tap._done(ev, "listdir", r)
        return r

    def open(self, p, flags, *a, **k):
        tap = self._tap
        if tap._passthrough(p):
            return os.open(p, flags, *a, **k)
        if flags & (os.O_WRONLY | os.O_RDWR | os.O_CREAT):
            tap._emit("create" if flags & os.O_CREAT else "open-rw", p)
        else:
            tap._emit("open-r", p)
        fd = os.open(p, flags, *a, **k)
        self._fdpaths[fd] = (p, flags)
        return fd

    def fdopen(self, fd, mode="r", *a, **k):
        tap = self._tap
        info = self._fdpaths.pop(fd, None)
        if info is None or not _is_write_mode(mode) or tap._passthrough(info[0]):
            return os.fdopen(fd, mode, *a, **k)
        return tap._wrap_write(info[0], mode, lambda buffering: os.fdopen(fd, mode, buffering))


class TappedLock(object):
    """Wraps the object returned by FileStorage.lock(name) (whoosh.util.filelock.FileLock)."""

    def __init__(self, tap, real, name):
        self._tap = tap
        self._real = real
        self._name = name

    def acquire(self, *a, **k):
        tap = self._tap
        tap._emit("lock-acquire", self._name, 0, a or k or None)
        ok = self._real.acquire(*a, **k)
        tap._emit("lock-acquired" if ok else "lock-failed", self._name)
        return ok

    def release(self):
        tap = self._tap
        tap._emit("lock-release", self._name)
        r = self._real.release()
        tap._emit("lock-released", self._name)
        return r

    def __enter__(self):
        self.acquire()
        return self

    def __exit__(self, *a):
        self.release()

    def __getattr__(self, a):
        return getattr(self._real, a)


def _is_write_mode(mode):
    return any(c in mode for c in "wax+")


class _Muted(object):
    def __init__(self, tap):
        self.tap = tap

    def __enter__(self):
        tls = self.tap._tls
        tls.muted = getattr(tls, "muted", 0) + 1
        return self.tap

    def __exit__(self, *a):
        self.tap._tls.muted -= 1


class Tap(object):
    def __init__(self, root=None, unbuffered=True, track=True, tap_ram=False, keep_events=True,
                 seek_flushes=True):
        """root: only paths under this directory produce events / are tracked (None = everything).
        unbuffered: open write handles with buffering=0 (directory always shows every write).
        track: keep per-file write streams (needed for `materialize`).
        tap_ram: also wrap RamStorage (events named 'ram:<file>')."""
        self.root = os.path.abspath(root) if root else None
        self.unbuffered = unbuffered
        self.track = track
        self.tap_ram = tap_ram
        self.keep_events = keep_events
        self.seek_flushes = seek_flushes
        self.on_event = None
        self.on_done = None
        self.gc_closed = 0        # write handles that were dropped without close() (closed by the finalizer)
        self.completed = []
        self.events = []
        self.n = 0
        self.enabled = True
        self.kind_counts = {}
        self._lock = threading.Lock()
        self._tls = threading.local()
        self._open = {}           # abs path -> FileState (open for writing, not closed)
        self._threads = {}
        self._saved = None
        self.installed = False

    # ------------------------------------------------------------------
    def install(self):
        global _ACTIVE
        if _ACTIVE is not None:
            raise RuntimeError("another Tap is already installed")
        import whoosh.filedb.filestore as fs
        self._fs = fs
        self._saved = {
            "open": fs.__dict__.get("open", _MISSING),
            "os": fs.__dict__["os"],
            "FileLock": fs.__dict__["FileLock"],
        }
        real_lock = self._saved["FileLock"]
        tap = self

        def tapped_filelock(path, *a, **k):
            real = real_lock(path, *a, **k)
            if tap._passthrough(path):
                return real
            return TappedLock(tap, real, path)
        fs.open = self._tapped_open
        fs.os = OsProxy(self)
        fs.FileLock = tapped_filelock
        if self.tap_ram:
            self._install_ram(fs)
        _ACTIVE = self
        self.installed = True
        return self

    def uninstall(self):
        global _ACTIVE
        if not self.installed:
            return
        fs = self._fs
        if self._saved["open"] is _MISSING:
            fs.__dict__.pop("open", None)
        else:
            fs.open = self._saved["open"]
        fs.os = self._saved["os"]
        fs.FileLock = self._saved["FileLock"]
        for name, fn in self._saved.get("ram", {}).items():
            setattr(fs.RamStorage, name, fn)
        _ACTIVE = None
        self.installed = False

    def __enter__(self):
        return self.install()

    def __exit__(self, *a):
        self.uninstall()

    def pause(self):
        self.enabled = False

    def resume(self):
        self.enabled = True

    def muted(self):
        """Context manager: the calling thread produces no events (and plain, untracked file objects)."""
        return _Muted(self)

    def reset_log(self):
        with self._lock:
            self.events = []
            self.completed = []
            self.n = 0
            self.kind_counts = {}

    # ------------------------------------------------------------------
    def _off(self):
        return (not self.enabled) or getattr(self._tls, "muted", 0)

    def _passthrough(self, path):
        if self._off():
            return True
        if self.root is not None:
            ap = os.path.abspath(path)
            if not (ap == self.root or ap.startswith(self.root + os.sep)):
                return True
        return False

    def _rel(self, path):
        p = str(path)
        if p.startswith("ram:"):
            return p
        if self.root is not None:
            ap = os.path.abspath(p)
            if ap.startswith(self.root + os.sep):
                return ap[len(self.root) + 1:]
            return ap
        return p

    def thread_index(self):
        ident = threading.get_ident()
        t = self._threads.get(ident)
        if t is None:
            t = self._threads[ident] = len(self._threads)
        return t

    def _emit(self, kind, path, nbytes=0, detail=None):
        if self._passthrough(path) and not str(path).startswith("ram:"):
            return None
        if self._off():
            return None
        name = self._rel(path)
        with self._lock:
            self.n += 1
            n = self.n
            self.kind_counts[kind] = self.kind_counts.get(kind, 0) + 1
            if self.keep_events:
                self.events.append((n, self.thread_index(), kind, name, nbytes))
        cb = self.on_event
        if cb is not None:
            cb(n, kind, name, detail)
        return n

    def _done(self, n, kind, result=None):
        """Post-operation notification for pre-operation event n (completion order can differ from emission
        order when a scheduler parks threads inside on_event)."""
        if n is None:
            return
        with self._lock:
            if self.keep_events:
                self.completed.append(n)
        cb = self.on_done
        if cb is not None:
            cb(n, kind, result)

    # ------------------------------------------------------------------
    def _tapped_open(self, path, mode="r", *a, **k):
        if self._passthrough(path):
            return builtins.open(path, mode, *a, **k)
        if not _is_write_mode(mode):
            ev = self._emit("open-r", path, 0, mode)
            try:
                return builtins.open(path, mode, *a, **k)
            finally:
                self._done(ev, "open-r")
        kind = "create" if ("w" in mode or "x" in mode) else "open-rw"
        ev = self._emit(kind, path, 0, mode)
        try:
            return self._wrap_write(path, mode, lambda buffering: builtins.open(path, mode, buffering))
        finally:
            self._done(ev, kind)

    def _wrap_write(self, path, mode, opener):
        ap = os.path.abspath(path)
        binary = "b" in mode
        base = b""
        if self.track and ("w" not in mode) and os.path.exists(ap):
            with builtins.open(ap, "rb") as f0:
                base = f0.read()
        f = opener(0 if (binary and self.unbuffered) else -1)
        st = None
        if self.track:
            st = FileState(ap, mode, base)
            with self._lock:
                self._open[ap] = st
        return FileProxy(self, f, ap, st, text=not binary)

    def _forget(self, path):
        ap = os.path.abspath(path)
        with self._lock:
            st = self._open.pop(ap, None)
            if st is not None:
                st.removed = True

    def _moved(self, a, b):
        a, b = os.path.abspath(a), os.path.abspath(b)
        with self._lock:
            old = self._open.pop(b, None)
            if old is not None:
                old.removed = True
            st = self._open.pop(a, None)
            if st is not None:
                st.path = b
                self._open[b] = st

    # ------------------------------------------------------------------
    def open_states(self, under=None):
        """FileState objects of the files currently open for writing (optionally only below `under`)."""
        with self._lock:
            sts = list(self._open.values())
        if under is not None:
            u = os.path.abspath(under) + os.sep
            sts = [s for s in sts if s.path.startswith(u)]
        return sts

    def unflushed(self, under=None):
        """True when some open file has written-but-not-flushed bytes (variants differ from 'full')."""
        return any(s.flushed < s.total for s in self.open_states(under))

    def materialize(self, src, dst, variant="full", rng=None):
        """Crash snapshot: copy directory `src` to (non-existing) `dst`; rewrite still-open files according
        to `variant` ("full" | "flushed" | "mid").  Returns {relpath: (cut, flushed, total)} for open files.
        The caller must make sure no other thread is mutating `src` meanwhile."""
        src = os.path.abspath(src)
        shutil.copytree(src, dst)
        info = {}
        for st in self.open_states(src):
            rel = st.path[len(src) + 1:]
            lo, hi = st.cuts()
            if variant == "full" or lo >= hi:
                cut = hi
            elif variant == "flushed":
                cut = lo
            elif variant == "mid":
                cut = rng.randint(lo + 1, hi - 1) if hi - lo >= 2 else lo
            else:
                raise ValueError(variant)
            info[rel] = (cut, lo, hi)
            if cut != hi:
                with builtins.open(os.path.join(dst, rel), "wb") as f:
                    f.write(st.content(cut))
        return info

    # ------------------------------------------------------------------
    def _install_ram(self, fs):
        tap = self
        R = fs.RamStorage
        saved = self._saved["ram"] = {}
        for name in ("create_file", "open_file", "delete_file", "rename_file", "list", "lock"):
            saved[name] = R.__dict__[name]

        def create_file(self_, name, **kw):
            tap._emit("create", "ram:" + name)
            f = saved["create_file"](self_, name, **kw)
            inner = f.onclose

            def onclose(sf):
                tap._emit("close", "ram:" + name)
                if inner:
                    inner(sf)
            f.onclose = onclose
            return f

        def open_file(self_, name, **kw):
            tap._emit("open-r", "ram:" + name)
            return saved["open_file"](self_, name, **kw)

        def delete_file(self_, name):
            tap._emit("remove", "ram:" + name)
            return saved["delete_file"](self_, name)

        def rename_file(self_, name, newname, safe=False):
            tap._emit("rename", "ram:" + newname, 0, "ram:" + name)
            return saved["rename_file"](self_, name, newname, safe=safe)

        def list_(self_):
            tap._emit("listdir", "ram:")
            return saved["list"](self_)

        def lock(self_, name):
            real = saved["lock"](self_, name)
            return TappedLock(tap, real, "ram:" + name)

        R.create_file, R.open_file, R.delete_file = create_file, open_file, delete_file
        R.rename_file, R.list, R.lock = rename_file, list_, lock


def scratch_root():
    """Directory for scratch index directories: tmpfs when available (snapshots are copy-heavy)."""
    for d in ("/dev/shm",):
        if os.path.isdir(d) and os.access(d, os.W_OK):
            return d
    return None
