"""Runtime-monitoring framework for the 20 given whoosh properties (see DESIGN.md).

The code under test is imported from ${VERIF_REPO:-/repo}/src, placed first on
sys.path by vf.core.bootstrap() before any whoosh import happens.
"""
