"""Deterministic cooperative scheduler (DESIGN section 2): N real threads, ONE run token.

The code under test runs in ordinary `threading.Thread`s, but only the thread that holds the token executes; all
others are parked on a private gate lock.  At every *scheduling point* the running thread gives the token back and a
seeded policy picks the next runnable thread.  Scheduling points are

  * every storage event of vf/tap.py      (`tap.on_event = sched.on_event`; called BEFORE each file-system
                                           operation and after lock acquire/release, in the calling thread),
  * every explicit call of `yield_()`, `sleep()`, `pause()`, `block_until()`, `join()` made by harness code,
  * the virtual `time.sleep()` that `WhooshPatches` puts into whoosh's polling loops (see below),
  * optionally every `sys.monitoring` LINE event in selected code objects (`LineYields`).

Nothing is decided by the wall clock: the scheduler keeps a VIRTUAL clock that advances by `tick` seconds per
scheduling step (and jumps to the next wake-up time when every live thread sleeps).  `WhooshPatches` replaces, from
the harness, the `time` object of whoosh.util.filelock (so `try_for(fn, timeout, delay)` polls in virtual time: its
`time.sleep(delay)` makes the thread not runnable until the virtual clock passed `delay`), `whoosh.index.sleep`
(retry loop of FileIndex.reader) and `whoosh.writing.time` (AsyncWriter's polling loop), and turns
`AsyncWriter.start()` into `sched.spawn()` so that whoosh's own helper thread is scheduled like the others.
A wall-clock watchdog only turns a hang into a status ("stall"/"watchdog"), never into a verdict.

API summary
-----------
    s = Scheduler(seed, policy="random"|"pct"|"rr", tick=0.001, stickiness=0.0, pct_depth=3, pct_horizon=3000,
                  quantum=1, max_steps=400000, watchdog_s=120, stall_s=20, replay=None)
    tid = s.spawn(name, fn, *args)        before run(), or from a running managed thread (dynamic threads)
    out = s.run()                         -> Outcome(status, steps, switches, schedule, errors, results, stuck, ...)
                                             status: "ok" | "deadlock" (no runnable thread, some unfinished, none
                                             sleeping) | "step-limit" | "stall" (token holder made no step for
                                             stall_s wall seconds: blocked in the OS) | "watchdog"
    inside managed threads:
    s.yield_(tag=None, lower=False)       scheduling point (lower=True: under "pct" the caller's priority drops below
                                          everybody else's - use it at the end of a polling-loop iteration)
    s.sleep(dt) / s.pause(nsteps)         not runnable until the virtual clock advanced by dt / nsteps ticks
    s.block_until(pred, tag)              not runnable until pred() is true (pred is evaluated by the scheduler)
    s.join(tid)                           block until that thread finished
    with s.atomic(): ...                  no scheduling point inside (tap events pass through); must not block
    s.now(), s.steps, s.current(), s.is_done(tid), s.all_done(tids), s.aborted
    s.on_event(n, kind, name, detail)     adapter for Tap.on_event
    s.Lock()                              cooperative (re-entrant) lock for harness objects shared by managed threads
    Outcome.schedule                      list of thread ids, one per step: Scheduler(replay=schedule) re-executes it
    Outcome.schedule_hash()               identity of the interleaving (hash of the owner sequence)

    with WhooshPatches(s, on_async=None): ...   virtual time inside whoosh's polling loops + AsyncWriter threads
                                          adopted (on_async(asyncwriter, tid) is called when one is spawned)
    LineYields(s, modules, prob, seed, exclude=("__del__",), no_yield_when=tap._lock.locked).install()/.uninstall()
                                          LINE-level yield injection (python >= 3.12); finalizers never yield

After an abort (deadlock, limits, watchdog) explicit scheduler calls raise `SchedAbort` (a BaseException) in every
managed thread, tap events pass through, and the threads unwind free-running; `Outcome.leaked` counts the threads
that did not finish within the grace period (they are daemon threads).
"""
import hashlib
import random
import sys
import threading
import time as _time
import traceback

RUNNABLE, SLEEPING, BLOCKED, DONE, NEW = "runnable", "sleeping", "blocked", "done", "new"


class SchedAbort(BaseException):
    """Raised inside managed threads when the schedule was abandoned."""


class _T(object):
    __slots__ = ("tid", "name", "fn", "args", "thread", "gate", "state", "wake", "pred", "tag", "atomic",
                 "own_steps", "exc", "tb", "result", "prio", "started")

    def __init__(self, tid, name, fn, args):
        self.tid, self.name, self.fn, self.args = tid, name, fn, args
        self.thread = None
        self.gate = threading.Lock()
        self.gate.acquire()
        self.state = NEW
        self.wake = 0.0
        self.pred = None
        self.tag = None
        self.atomic = 0
        self.own_steps = 0
        self.exc = None
        self.tb = None
        self.result = None
        self.prio = 0.0
        self.started = False


class Outcome(object):
    def __init__(self, **kw):
        self.__dict__.update(kw)

    def schedule_hash(self):
        h = hashlib.sha1()
        h.update(bytes(bytearray(t & 0xFF for t in self.schedule)))
        return h.hexdigest()[:16]

    def __repr__(self):
        return "Outcome(%s, steps=%d, switches=%d, errors=%r)" % (self.status, self.steps, self.switches,
                                                                  sorted(self.errors))


class _Atomic(object):
    def __init__(self, sched):
        self.sched = sched

    def __enter__(self):
        t = self.sched._cur()
        if t is not None:
            t.atomic += 1
        return self

    def __exit__(self, *a):
        t = self.sched._cur()
        if t is not None:
            t.atomic -= 1


class Scheduler(object):
    def __init__(self, seed=0, policy="random", tick=0.001, stickiness=0.0, pct_depth=3, pct_horizon=3000,
                 quantum=1, max_steps=400000, watchdog_s=120.0, stall_s=20.0, replay=None, t0=1000.0):
        self.rng = random.Random("sched:%r" % (seed,))
        self.policy = policy
        self.tick = float(tick)
        self.stickiness = stickiness
        self.quantum = max(1, int(quantum))
        self.max_steps = max_steps
        self.watchdog_s = watchdog_s
        self.stall_s = stall_s
        self.replay = list(replay) if replay is not None else None
        self.diverged_at = None
        self.clock = float(t0)
        self.steps = 0
        self.switches = 0
        self.clock_jumps = 0
        self.schedule = []
        self.threads = []
        self.aborted = False
        self.status = None
        self.stuck = None
        self.running = False
        self._tls = threading.local()
        self._mutex = threading.Lock()
        self._done_evt = threading.Event()
        self._last_progress = _time.monotonic()
        self._holder = None
        self._run_left = 0
        self._rr_last = -1
        self._low = 0.0
        self._changes = set()
        if policy == "pct":
            k = max(0, int(pct_depth) - 1)
            hz = max(int(pct_horizon), k + 2)
            self._changes = set(self.rng.sample(range(1, hz), k))
        elif policy not in ("random", "rr"):
            raise ValueError(policy)

    # ------------------------------------------------------------------ threads
    def spawn(self, name, fn, *args):
        t = _T(len(self.threads), name, fn, args)
        t.prio = 1.0 + self.rng.random()
        t.state = RUNNABLE
        self.threads.append(t)
        if self.running:
            self._start(t)
        return t.tid

    def _start(self, t):
        t.started = True
        t.thread = threading.Thread(target=self._boot, args=(t,), name="vf-sched-%s" % t.name, daemon=True)
        t.thread.start()

    def _boot(self, t):
        t.gate.acquire()
        self._tls.t = t
        try:
            if self.aborted:
                raise SchedAbort()
            t.result = t.fn(*t.args)
        except SchedAbort:
            pass
        except BaseException as e:  # noqa - recorded, reported by the Outcome
            t.exc = e
            t.tb = "".join(traceback.format_exception(type(e), e, e.__traceback__))[-3000:]
        finally:
            self._tls.t = None
            self._exit(t)

    def _exit(self, t):
        t.state = DONE
        if not self.aborted:
            nxt = self._pick(t)
            if nxt is not None:
                self._holder = nxt
                self._release(nxt)
        with self._mutex:
            if all(x.state == DONE for x in self.threads):
                self._done_evt.set()

    def _cur(self):
        return getattr(self._tls, "t", None)

    def current(self):
        t = self._cur()
        return None if t is None else t.tid

    def name_of(self, tid):
        return self.threads[tid].name

    def is_done(self, tid):
        return self.threads[tid].state == DONE

    def all_done(self, tids):
        return all(self.threads[i].state == DONE for i in tids)

    def now(self):
        return self.clock

    def atomic(self):
        return _Atomic(self)

    # ------------------------------------------------------------------ scheduling points
    def on_event(self, n, kind, name, detail=None):
        t = self._cur()
        if t is None or self.aborted:
            return
        self._switch(t, (kind, name), False)

    def yield_(self, tag=None, lower=False):
        t = self._cur()
        if t is None:
            return
        if lower and self.policy == "pct" and not t.atomic:
            self._low -= 1.0
            t.prio = self._low
        self._switch(t, tag, True)

    def sleep(self, dt):
        t = self._cur()
        if t is None:
            _time.sleep(dt)
            return
        if self.aborted:
            raise SchedAbort()
        if t.atomic:
            return
        if self.policy == "pct":
            # a sleeping (polling) thread counts as yielding: without this, several high-priority pollers whose
            # sleeps are shorter than their own polling steps starve the low-priority lock holder for ever
            self._low -= 1.0
            t.prio = self._low
        t.state = SLEEPING
        t.wake = self.clock + max(float(dt), 0.0)
        self._switch(t, ("sleep", dt), True)

    def pause(self, nsteps):
        self.sleep(nsteps * self.tick)

    def block_until(self, pred, tag=None):
        t = self._cur()
        if t is None:
            raise RuntimeError("block_until outside a managed thread")
        if self.aborted:
            raise SchedAbort()
        if t.atomic:
            raise RuntimeError("blocking inside an atomic section")
        if pred():
            return
        t.state = BLOCKED
        t.pred = pred
        self._switch(t, tag or "block", True)
        t.pred = None

    def join(self, tid):
        other = self.threads[tid]
        self.block_until(lambda: other.state == DONE, ("join", tid))

    def _switch(self, t, tag, explicit):
        if self.aborted:
            if explicit:
                raise SchedAbort()
            return
        if t.atomic:
            self._last_progress = _time.monotonic()
            return
        t.tag = tag
        t.own_steps += 1
        nxt = self._pick(t)
        if nxt is None:
            # aborted inside _pick (deadlock / step limit)
            if explicit or t.state != RUNNABLE:
                t.state = RUNNABLE
                raise SchedAbort()
            return
        if nxt is t:
            return
        self.switches += 1
        self._holder = nxt
        self._release(nxt)
        t.gate.acquire()
        if self.aborted:
            if explicit or t.state != RUNNABLE:
                t.state = RUNNABLE
                raise SchedAbort()

    @staticmethod
    def _release(t):
        try:
            t.gate.release()
        except RuntimeError:
            pass

    def _pick(self, cur):
        """One scheduling step: returns the thread that runs next (None: nothing left / aborted)."""
        self.steps += 1
        self.clock += self.tick
        self._last_progress = _time.monotonic()
        if self.steps > self.max_steps:
            self._abort("step-limit", cur)
            return None
        while True:
            cands = []
            sleepers = None
            for x in self.threads:
                st = x.state
                if st == RUNNABLE:
                    cands.append(x)
                elif st == SLEEPING:
                    if x.wake <= self.clock:
                        x.state = RUNNABLE
                        cands.append(x)
                    elif sleepers is None or x.wake < sleepers:
                        sleepers = x.wake
                elif st == BLOCKED:
                    if x.pred():
                        x.state = RUNNABLE
                        cands.append(x)
            if cands:
                break
            if sleepers is not None:
                self.clock = sleepers
                self.clock_jumps += 1
                continue
            if all(x.state == DONE for x in self.threads):
                return None
            self._abort("deadlock", cur)
            return None
        nxt = self._choose(cur, cands)
        self.schedule.append(nxt.tid)
        return nxt

    def _choose(self, cur, cands):
        if self.replay is not None and self.diverged_at is None:
            i = len(self.schedule)
            if i < len(self.replay):
                for x in cands:
                    if x.tid == self.replay[i]:
                        return x
            self.diverged_at = i
        if len(cands) == 1:
            if self.policy == "pct" and self.steps in self._changes and cur is not None:
                self._low -= 1.0
                cur.prio = self._low
            return cands[0]
        pol = self.policy
        if pol == "random":
            if self.stickiness and cur is not None and cur.state == RUNNABLE and self.rng.random() < self.stickiness:
                return cur
            return cands[self.rng.randrange(len(cands))]
        if pol == "pct":
            if self.steps in self._changes and cur is not None:
                self._low -= 1.0
                cur.prio = self._low
            best = cands[0]
            for x in cands:
                if x.prio > best.prio:
                    best = x
            return best
        # round robin with quantum
        if cur is not None and cur.state == RUNNABLE and self._run_left > 1:
            self._run_left -= 1
            return cur
        self._run_left = self.quantum
        last = cur.tid if cur is not None else self._rr_last
        after = [x for x in cands if x.tid > last]
        nxt = after[0] if after else cands[0]
        self._rr_last = nxt.tid
        return nxt

    # ------------------------------------------------------------------ abort / run
    def _abort(self, status, cur=None, stuck=None):
        with self._mutex:
            if self.aborted:
                return
            self.aborted = True
            self.status = status
            self.stuck = stuck
        for x in self.threads:
            if x is cur or x.state == DONE or not x.started:
                continue
            self._release(x)
        self._done_evt.set()

    def run(self):
        """Run all spawned threads to completion under the policy. Call from an unmanaged (main) thread."""
        self.running = True
        t_start = _time.monotonic()
        self._last_progress = t_start
        for t in list(self.threads):
            self._start(t)
        first = self._pick(None)
        if first is not None:
            self._holder = first
            self._release(first)
        while not self._done_evt.wait(0.2):
            now = _time.monotonic()
            if now - self._last_progress > self.stall_s:
                self._abort("stall", None, self._describe_holder())
            elif now - t_start > self.watchdog_s:
                self._abort("watchdog", None, self._describe_holder())
        # grace period for unwinding
        deadline = _time.monotonic() + (15.0 if self.aborted else 5.0)
        for t in self.threads:
            if t.thread is not None:
                t.thread.join(max(0.0, deadline - _time.monotonic()))
        leaked = [t.name for t in self.threads if t.thread is not None and t.thread.is_alive()]
        self.running = False
        errors = dict((t.name, t.exc) for t in self.threads if t.exc is not None)
        tbs = dict((t.name, t.tb) for t in self.threads if t.exc is not None)
        return Outcome(status=self.status or "ok", steps=self.steps, switches=self.switches, clock=self.clock,
                       clock_jumps=self.clock_jumps, schedule=self.schedule, errors=errors, tracebacks=tbs,
                       results=dict((t.name, t.result) for t in self.threads), leaked=leaked, stuck=self.stuck,
                       diverged_at=self.diverged_at, nthreads=len(self.threads),
                       own_steps=dict((t.name, t.own_steps) for t in self.threads),
                       wall_s=_time.monotonic() - t_start)

    def _describe_holder(self):
        h = self._holder
        if h is None:
            return None
        info = {"thread": h.name, "tid": h.tid, "last_tag": h.tag, "stack": []}
        try:
            fr = sys._current_frames().get(h.thread.ident)
            if fr is not None:
                info["stack"] = ["%s:%d:%s" % (f.filename, f.lineno, f.name) for f in traceback.extract_stack(fr)][-12:]
        except Exception:  # noqa
            pass
        return info

    # ------------------------------------------------------------------ helpers for harness objects
    def Lock(self):
        return CoopLock(self)


class CoopLock(object):
    """Re-entrant lock whose blocking acquire parks the thread in the scheduler instead of in the OS.
    Drop-in for `threading.RLock()` attributes of objects shared by managed threads (e.g. BufferedWriter.lock)."""

    def __init__(self, sched):
        self._s = sched
        self._owner = None
        self._depth = 0
        self._real = threading.RLock()

    def acquire(self, blocking=True, timeout=-1):
        s = self._s
        me = s.current()
        if me is None or s.aborted:
            ok = self._real.acquire(blocking, timeout) if blocking else self._real.acquire(False)
            return ok
        if self._owner == me:
            self._depth += 1
            return True
        if self._owner is not None:
            if not blocking:
                return False
            s.block_until(lambda: self._owner is None, "cooplock")
        self._owner = me
        self._depth = 1
        return True

    def release(self):
        s = self._s
        me = s.current()
        if me is None or self._owner is None:
            try:
                self._real.release()
            except RuntimeError:
                pass
            return
        self._depth -= 1
        if self._depth <= 0:
            self._owner = None
            self._depth = 0

    __enter__ = acquire

    def __exit__(self, *a):
        self.release()


# ---------------------------------------------------------------------- virtual time inside whoosh

class _TimeProxy(object):
    """Stands in for the `time` module inside a whoosh module: time()/sleep() are virtual for managed threads."""

    def __init__(self, sched):
        self._s = sched

    def __getattr__(self, a):
        return getattr(_time, a)

    def time(self):
        s = self._s
        if s._cur() is None:
            return _time.time()
        return s.clock

    def sleep(self, dt):
        s = self._s
        if s._cur() is None:
            return _time.sleep(dt)
        s.sleep(dt)


class WhooshPatches(object):
    """Harness-side replacement of the wall clock in whoosh's polling loops (no repository edit):
    whoosh.util.filelock.time (try_for), whoosh.index.sleep (FileIndex.reader retry), whoosh.writing.time
    (AsyncWriter.run), AsyncWriter.start/join (the helper thread becomes a managed thread)."""

    def __init__(self, sched, on_async=None):
        self.sched = sched
        self.saved = None
        self.async_tids = []
        self.on_async = on_async      # fn(asyncwriter, tid): called synchronously when the helper thread is adopted
        self.index_sleeps = 0         # retries of FileIndex.reader() (calls of whoosh.index.sleep)

    def __enter__(self):
        import whoosh.index as wi
        import whoosh.util.filelock as fl
        import whoosh.writing as ww
        s = self.sched
        proxy = _TimeProxy(s)
        self.saved = (fl.time, wi.sleep, ww.time, ww.AsyncWriter.start, ww.AsyncWriter.join)
        fl.time = proxy
        ww.time = proxy
        patches = self

        def index_sleep(dt):
            patches.index_sleeps += 1
            proxy.sleep(dt)
        wi.sleep = index_sleep

        def start(aw):
            if s._cur() is None:
                return patches.saved[3](aw)
            tid = s.spawn("async-of-%s" % s.name_of(s.current()), aw.run)
            aw._vf_tid = tid
            patches.async_tids.append(tid)
            if patches.on_async is not None:
                patches.on_async(aw, tid)

        def join(aw, timeout=None):
            tid = getattr(aw, "_vf_tid", None)
            if tid is None:
                return patches.saved[4](aw, timeout)
            s.join(tid)
        ww.AsyncWriter.start = start
        ww.AsyncWriter.join = join
        return self

    def __exit__(self, *a):
        import whoosh.index as wi
        import whoosh.util.filelock as fl
        import whoosh.writing as ww
        fl.time, wi.sleep, ww.time, ww.AsyncWriter.start, ww.AsyncWriter.join = self.saved


# ---------------------------------------------------------------------- LINE-level yield injection

def code_objects_of(module):
    """All code objects defined in `module` (functions, methods, nested functions, comprehensions)."""
    import types
    seen = {}

    def add_code(co):
        if id(co) in seen or co.co_filename != getattr(module, "__file__", None):
            return
        seen[id(co)] = co
        for c in co.co_consts:
            if isinstance(c, types.CodeType):
                add_code(c)

    def add_obj(o, depth=0):
        if isinstance(o, (staticmethod, classmethod)):
            o = o.__func__
        if isinstance(o, property):
            for f in (o.fget, o.fset, o.fdel):
                if f is not None:
                    add_obj(f, depth)
            return
        if isinstance(o, types.FunctionType):
            add_code(o.__code__)
        elif isinstance(o, type) and depth < 3 and getattr(o, "__module__", None) == module.__name__:
            for v in list(vars(o).values()):
                add_obj(v, depth + 1)
    for v in list(vars(module).values()):
        add_obj(v)
    return list(seen.values())


class LineYields(object):
    """sys.monitoring LINE events in the code objects of `modules` become scheduling points (with probability
    `prob`, drawn from a private seeded rng: the draw sequence is deterministic because only the token holder
    executes)."""

    TOOL = 4

    def __init__(self, sched, modules, prob=1.0, seed=0, exclude=("__del__",), no_yield_when=None):
        self.sched = sched
        self.no_yield_when = no_yield_when    # e.g. tap._lock.locked: never park while a harness lock is held
        self.codes = []
        for m in modules:
            self.codes.extend(c for c in code_objects_of(m) if c.co_name not in exclude)
        self.prob = prob
        self.rng = random.Random("lines:%r" % (seed,))
        self.fired = 0
        self.yields = 0
        self.installed = False

    def _cb(self, code, line):
        s = self.sched
        t = s._cur()
        if t is None or t.atomic or s.aborted:
            return None
        if self.no_yield_when is not None and self.no_yield_when():
            return None
        self.fired += 1
        if self.prob < 1.0 and self.rng.random() >= self.prob:
            return None
        self.yields += 1
        s._switch(t, ("line", code.co_name, line), False)
        return None

    def install(self):
        mon = sys.monitoring
        mon.use_tool_id(self.TOOL, "vf-sched-lines")
        mon.register_callback(self.TOOL, mon.events.LINE, self._cb)
        for c in self.codes:
            mon.set_local_events(self.TOOL, c, mon.events.LINE)
        self.installed = True
        return self

    def uninstall(self):
        if not self.installed:
            return
        mon = sys.monitoring
        for c in self.codes:
            try:
                mon.set_local_events(self.TOOL, c, 0)
            except Exception:  # noqa
                pass
        mon.register_callback(self.TOOL, mon.events.LINE, None)
        mon.free_tool_id(self.TOOL)
        self.installed = False

    def __enter__(self):
        return self.install()

    def __exit__(self, *a):
        self.uninstall()


# ---------------------------------------------------------------------- policy mix used by the property modules

def draw_policy(rng, horizon=3000):
    """A seeded choice among the policy families; returns kwargs for Scheduler()."""
    r = rng.random()
    if r < 0.40:
        return dict(policy="random", stickiness=rng.choice([0.0, 0.0, 0.5, 0.9, 0.98]),
                    tick=rng.choice([0.0005, 0.001, 0.004]))
    if r < 0.75:
        return dict(policy="pct", pct_depth=rng.choice([1, 2, 3, 5, 8]), pct_horizon=horizon,
                    tick=rng.choice([0.0005, 0.001, 0.004]))
    return dict(policy="rr", quantum=rng.choice([1, 3, 17, 60, 250]), tick=rng.choice([0.0005, 0.001, 0.004]))


def policy_label(kw):
    p = kw["policy"]
    if p == "random":
        return "random/sticky=%s" % kw.get("stickiness")
    if p == "pct":
        return "pct/d=%s" % kw.get("pct_depth")
    return "rr/q=%s" % kw.get("quantum")


# ---------------------------------------------------------------------- self-test

def _selftest():
    """python -m vf.sched : determinism, replay, deadlock detection, virtual time, lost-update race found."""
    res = {}

    def racy(policy_kw, seed):
        box = {"x": 0}
        s = Scheduler(seed, **policy_kw)

        def inc():
            for _ in range(3):
                v = box["x"]
                s.yield_("read")
                box["x"] = v + 1
                s.yield_("write")
        for i in range(3):
            s.spawn("t%d" % i, inc)
        out = s.run()
        return box["x"], out
    lost = 0
    hashes = set()
    for seed in range(60):
        kw = draw_policy(random.Random(seed), horizon=20)
        x, out = racy(kw, seed)
        assert out.status == "ok", out
        x2, out2 = racy(kw, seed)
        assert (x, out.schedule) == (x2, out2.schedule), "non-deterministic"
        hashes.add(out.schedule_hash())
        if x != 9:
            lost += 1
    res["lost_update_schedules"] = lost
    res["distinct"] = len(hashes)
    assert lost > 0 and len(hashes) > 20
    # replay under a different seed/policy
    kw = dict(policy="random")
    x, out = racy(kw, 5)
    box = {"x": 0}
    s = Scheduler(12345, policy="rr", replay=out.schedule)

    def inc():
        for _ in range(3):
            v = box["x"]
            s.yield_("read")
            box["x"] = v + 1
            s.yield_("write")
    for i in range(3):
        s.spawn("t%d" % i, inc)
    o2 = s.run()
    assert o2.schedule == out.schedule and box["x"] == x and o2.diverged_at is None
    res["replay"] = "ok"
    # deadlock
    s = Scheduler(1)
    a, b = s.Lock(), s.Lock()

    def ab():
        with a:
            s.yield_()
            with b:
                pass

    def ba():
        with b:
            s.yield_()
            with a:
                pass
    dl = 0
    for seed in range(20):
        s = Scheduler(seed)
        a, b = s.Lock(), s.Lock()
        s.spawn("ab", ab)
        s.spawn("ba", ba)
        o = s.run()
        assert o.status in ("ok", "deadlock") and not o.leaked, (o.status, o.leaked)
        dl += o.status == "deadlock"
    assert dl > 0
    res["deadlocks_found"] = dl
    # virtual time: a sleeper wakes only after the clock passed, and the clock jumps when all sleep
    s = Scheduler(3, tick=0.001)
    seen = {}

    def sleeper():
        t0 = s.now()
        s.sleep(5.0)
        seen["dt"] = s.now() - t0

    def worker():
        for _ in range(100):
            s.yield_()
    s.spawn("s", sleeper)
    s.spawn("w", worker)
    w0 = _time.monotonic()
    o = s.run()
    assert o.status == "ok" and seen["dt"] >= 5.0 and _time.monotonic() - w0 < 2.0 and o.clock_jumps >= 1
    res["virtual_sleep"] = round(seen["dt"], 3)
    # stall detection: a thread that blocks in the OS while holding the token
    s = Scheduler(4, stall_s=1.0)
    real = threading.Lock()

    def holder():
        real.acquire()
        try:
            s.yield_()
            s.pause(50)
        finally:
            real.release()

    def blocker():
        s.yield_()
        real.acquire()
        real.release()
    st = set()
    for seed in range(6):
        real = threading.Lock()
        s = Scheduler(seed, stall_s=1.0)
        s.spawn("h", holder)
        s.spawn("b", blocker)
        o = s.run()
        st.add(o.status)
        assert not o.leaked, o.leaked
    assert "stall" in st, st
    res["stall_detected"] = sorted(st)
    # throughput
    s = Scheduler(7)

    def spin():
        for _ in range(20000):
            s.yield_()
    for i in range(4):
        s.spawn("t%d" % i, spin)
    w0 = _time.monotonic()
    o = s.run()
    res["steps_per_s"] = int(o.steps / (_time.monotonic() - w0))
    return res


if __name__ == "__main__":
    print(_selftest())
