#!/venv/bin/python
"""Regenerate the status=fixed entries of known_findings.json from the `fix:` commits of /repo
(everything after the pinned snapshot commit). Entries with status=known are preserved untouched.
Run by hand after cherry-picking fixes; never at check time."""
import json, os, re, subprocess
ROOT = os.path.dirname(os.path.dirname(os.path.abspath(__file__)))
BASE = "173ed2e"
out = subprocess.check_output(["git", "-C", "/repo", "log", "--reverse", "--format=%h\t%s", BASE + "..HEAD"], text=True)
path = os.path.join(ROOT, "known_findings.json")
data = json.load(open(path))
keep = [e for e in data["findings"] if e.get("status") != "fixed"]
fixed = []
for line in out.splitlines():
    h, subj = line.split("\t", 1)
    if not subj.startswith("fix:"):
        continue
    m = re.search(r"\((C\d\d(?:(?:/|,\s*)C\d\d)*)\)\s*$", subj)
    props = re.split(r"/|,\s*", m.group(1)) if m else ["?"]
    what = subj[4:].strip()
    what = re.sub(r"\s*\((C\d\d(?:(?:/|,\s*)C\d\d)*)\)\s*$", "", what)
    for p in props:
        fixed.append({"id": "fixed-%s-%s" % (h, p), "property": p, "status": "fixed", "commit": h, "mechanism": what,
                      "line": "fixed: property=%s %s %s" % (p, h, what)})
data["findings"] = keep + fixed
json.dump(data, open(path, "w"), indent=1)
open(path, "a").write("\n")
print("known:", len(keep), "fixed entries:", len(fixed), "from", len(set(e["commit"] for e in fixed)), "commits")
