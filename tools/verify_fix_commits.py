#!/venv/bin/python
"""Run the repository's test suite at EVERY commit after the pinned snapshot (each fix: commit must keep the
unedited 587 tests green on its own). usage: tools/verify_fix_commits.py [--jobs N] [since-commit]"""
import os, subprocess, sys, tempfile, shutil
from concurrent.futures import ThreadPoolExecutor
BASE = "173ed2e"
jobs = 4
args = sys.argv[1:]
if "--jobs" in args:
    i = args.index("--jobs"); jobs = int(args[i + 1]); del args[i:i + 2]
since = args[0] if args else BASE
commits = subprocess.check_output(["git", "-C", "/repo", "log", "--reverse", "--format=%h\t%s", since + "..HEAD"], text=True).splitlines()
def one(line):
    h, subj = line.split("\t", 1)
    wt = tempfile.mkdtemp(prefix="vf-vfc-"); os.rmdir(wt)
    subprocess.check_call(["git", "-C", "/repo", "worktree", "add", "-q", "--detach", wt, h])
    td = tempfile.mkdtemp(prefix="vf-vfc-tmp-")
    try:
        env = dict(os.environ, TMPDIR=td, PYTHONPATH=os.path.join(wt, "src"))
        r = subprocess.run(["/venv/bin/python", "-m", "pytest", "-q", "-p", "no:cacheprovider", "--timeout=900", "tests"],
                           cwd=wt, env=env, capture_output=True, text=True)
        last = r.stdout.strip().splitlines()[-1] if r.stdout.strip() else "?"
        return h, last, subj[:90]
    finally:
        shutil.rmtree(td, ignore_errors=True)
        subprocess.call(["git", "-C", "/repo", "worktree", "remove", "--force", wt])
bad = 0
with ThreadPoolExecutor(jobs) as ex:
    for h, last, subj in ex.map(one, commits):
        ok = last.startswith("587 passed")
        bad += (not ok)
        print(("ok  " if ok else "BAD ") + h, last[:40], "|", subj, flush=True)
print("commits:", len(commits), "not green:", bad)
