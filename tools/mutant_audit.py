#!/venv/bin/python
"""Sensitivity audit (DESIGN §1.6): apply each /verif/mutants/<ID>-*.patch to a scratch git worktree of /repo
(HEAD + the patch), run the QUICK check of <ID> against it (VERIF_REPO), expect exit 1. Also optionally check that
the mutant still passes the repository's own tests (--tests). Worktrees are removed afterwards.
usage: tools/mutant_audit.py [ID ...] [--tests] [--jobs N] [--seeded]   (--seeded audits /verif/seeded/*/patch.diff instead)"""
import glob, json, os, subprocess, sys, tempfile, time
from concurrent.futures import ThreadPoolExecutor
ROOT = os.path.dirname(os.path.dirname(os.path.abspath(__file__)))
args = [a for a in sys.argv[1:] if not a.startswith("--")]
run_tests = "--tests" in sys.argv
seeded = "--seeded" in sys.argv
jobs = 3
for i, a in enumerate(sys.argv):
    if a == "--jobs":
        jobs = int(sys.argv[i + 1]); args = [x for x in args if x != sys.argv[i + 1]]

def items():
    if seeded:
        for d in sorted(glob.glob(os.path.join(ROOT, "seeded", "*"))):
            if not os.path.exists(os.path.join(d, "meta.json")):
                continue          # an intake still in progress
            meta = json.load(open(os.path.join(d, "meta.json")))
            props = meta.get("checks") or [meta["property"]]
            for p in props:
                if not args or p in args or os.path.basename(d) in args:
                    yield p, os.path.join(d, "patch.diff"), os.path.basename(d)
    else:
        for f in sorted(glob.glob(os.path.join(ROOT, "mutants", "*.patch"))):
            pid = os.path.basename(f).split("-")[0]
            if not args or pid in args:
                yield pid, f, os.path.basename(f)[:-6]

def one(item):
    pid, patch, name = item
    wt = tempfile.mkdtemp(prefix="vf-mut-")
    os.rmdir(wt)
    for attempt in range(6):      # concurrent `worktree add/remove` of the other jobs can collide for a moment
        r0 = subprocess.run(["git", "-C", "/repo", "worktree", "add", "-q", "--detach", wt, "HEAD"], capture_output=True, text=True)
        if r0.returncode == 0:
            break
        time.sleep(0.5 + attempt)
    else:
        return (pid, name, "WORKTREE-FAILED", 0, r0.stderr.strip()[:200])
    try:
        r = subprocess.run(["git", "-C", wt, "apply", patch], capture_output=True, text=True)
        if r.returncode != 0:
            return (pid, name, "PATCH-FAILED", 0, r.stderr.strip()[:200])
        tests = ""
        if run_tests:
            td = tempfile.mkdtemp(prefix="vf-mut-tmp-")
            env = dict(os.environ, TMPDIR=td, PYTHONPATH=os.path.join(wt, "src"))
            t = subprocess.run(["/venv/bin/python", "-m", "pytest", "-q", "-x", "-p", "no:cacheprovider", "--timeout=900", "tests"],
                               cwd=wt, env=env, capture_output=True, text=True)
            tests = t.stdout.strip().splitlines()[-1] if t.stdout.strip() else "?"
            subprocess.call(["rm", "-rf", td])
        t0 = time.time()
        env = dict(os.environ, VERIF_REPO=wt, VERIF_SHARDS=os.environ.get("VERIF_SHARDS", "4"), VERIF_EVIDENCE_DIR=wt + "-ev")
        c = subprocess.run([os.path.join(ROOT, "check"), pid, "--tier", "quick"], cwd=ROOT, env=env, capture_output=True, text=True)
        dt = time.time() - t0
        mech = ""
        for ln in c.stdout.splitlines():
            if ln.strip().startswith("monitor="):
                mech = ln.strip()[:160]
                break
        verdict = {0: "MISSED", 1: "caught", 2: "inconclusive"}.get(c.returncode, "rc%d" % c.returncode)
        return (pid, name, verdict, dt, (tests + " | " if tests else "") + mech)
    finally:
        subprocess.call(["git", "-C", "/repo", "worktree", "remove", "--force", wt])
        subprocess.call(["rm", "-rf", wt + "-ev"])

todo = list(items())
with ThreadPoolExecutor(jobs) as ex:
    res = list(ex.map(one, todo))
# evidence files were rewritten by the audit runs against scratch trees: restore the committed ones
pass  # evidence of /repo is untouched: audit runs write to VERIF_EVIDENCE_DIR
if seeded and "--write" in sys.argv:
    # record the latest verdict of every audited check in the seeded change's meta.json
    byname = {}
    for pid, name, verdict, dt, info in res:
        byname.setdefault(name, {})[pid] = {"verdict": verdict, "wall_s": round(dt, 1), "first_mechanism": info}
    head = subprocess.check_output(["git", "-C", "/repo", "rev-parse", "--short", "HEAD"], text=True).strip()
    for name, r in byname.items():
        mp = os.path.join(ROOT, "seeded", name, "meta.json")
        m = json.load(open(mp))
        m["check_results_latest"] = {"repo_head": head, "results": r}
        json.dump(m, open(mp, "w"), indent=1)
w = max([len(r[1]) for r in res] + [10])
for pid, name, verdict, dt, info in res:
    print("%-4s %-*s %-12s %5.0fs  %s" % (pid, w, name, verdict, dt, info))
print("caught %d / %d" % (sum(1 for r in res if r[2] == "caught"), len(res)))
