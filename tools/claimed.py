# Table read by tools/mkmanifest.py.  id -> dict(level, technique, text, note[, ref])
HOOK_COMMITS = []
NOT_APPLICABLE = {}
NOTES = ("Exit codes: 0 held, 1 violated (VIOLATION lines), 2 inconclusive (a deciding monitor was not reached / "
         "harness error / watchdog) - exit 2 does not occur on the unchanged tree. Known findings: /verif/known_findings.json. "
         "VERIF_REPO=<dir> points every check at another working tree (used for the mutant audit). "
         "Every check shards its seeded case stream over worker subprocesses (quick: 4-6, thorough: 16).")
_MON = "runtime monitoring: "
CLAIMED = {
    "C01": dict(level="exploration", technique=_MON + "reference-model monitor (independent query evaluator over generated corpora) on 8 access paths of the real engine",
                text="Every generated (history, query tree, weighting) case is run through the real index and compared, per access path, with an independent set-semantics evaluator; held on the cases explored (thousands per quick run, tens of thousands thorough), with reach counters per query class and layout.",
                note="Trusted: the ~150-line evaluator in vf/model.py and the documented reading of each query type (listed in evidence assumptions); analysis is pinned to str.split() on a controlled vocabulary."),
    "C05": dict(level="exploration", technique=_MON + "differential monitor limit=k vs exhaustive ranking on the same searcher, with collector spy counters proving block skipping/replace engaged",
                text="Top-k lists are compared hit by hit (doc, score, order, tie rule) with the prefix of the exhaustive ranking for generated queries, weighting models, block limits, segment layouts, filters/masks/terms; runs where skipping and tree replacement engaged are counted and floored.",
                note="Trusted: the exhaustive collector as ranking oracle (checked independently by C09); float ties within 1e-9 may swap."),
    "C11": dict(level="exploration", technique=_MON + "protocol monitor: generated programs over the matcher API executed on real matcher trees against a stepped reference list cross-checked with the model",
                text="For every matcher tree produced by generated queries (incl. span queries, array union, multi-segment, filters) three random programs over next/skip_to/skip_to_quality(0)/replace(0)/copy/reset/reads are executed and every position and read is asserted; held on the programs explored; each matcher class is counted.",
                note="Trusted: plain next()-stepping of a fresh matcher as reference (its id set is compared with the independent model); negations have no posting value (not compared)."),
    "C12": dict(level="exploration", technique=_MON + "invariant monitor: block_quality/max_quality vs reference scores after every operation; skip_to_quality(q)/replace(q) loss checks; leaf block monitor",
                text="Upper-bound invariants are asserted at every position reached by generated programs with thresholds at/below/above remaining scores, for all shipped weighting models and parameters; on-disk posting blocks are checked entry by entry.",
                note="Trusted: stepped reference scores; 1e-9 relative slack; models that do not claim quality support are only checked not to claim."),
    "C02": dict(level="fault_enumeration", technique=_MON + "storage-event tap + crash enumeration: a directory snapshot at EVERY storage event boundary (x3 on-disk prefix variants of open files) re-opened and compared with the old/new state; real-SIGKILL cross-validation",
                text="Each monitored writer transaction (adds/updates/deletes/schema changes x commit kinds x compound/loose x commit/cancel/exception x writer front-ends) is executed once under the tap; every event boundary yields crash snapshots that must re-open to exactly the old or the new logical state, be searchable and writable, and lose their orphans at the next commit. Exhaustive over the event boundaries of the executed transactions; the thorough tier validates sampled snapshots against directories left by really killed child processes.",
                note="Crash model = process death (what the statement says): no power loss / torn sectors / directory reordering. MpWriter sub-processes are outside the in-process tap. Trusted: vf/tap.py write-stream model of stdio buffering (cross-checked by the real-kill runs), vf/dump.py."),
    "C09": dict(level="exploration", technique=_MON + "reference-scorer monitor (formulas re-implemented, inputs re-derived from the corpus model) + composition / constant-score / context / layout differential monitors on real searches",
                text="Term scores of every shipped weighting model (and a final() hook) are compared with an independent reference for every hit of generated corpora; composite scores are compared with the documented composition of the children's own scores; constant-score queries, terms recording, filters, limits and (without deletions) segment layout must not change a document's score.",
                note="Trusted: vf/refscore.py (~120 lines) and the documented formulas; rel. tolerance 1e-6; DisjunctionMax tiebreak generated as 0."),
}
