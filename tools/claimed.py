# Table read by tools/mkmanifest.py.  id -> dict(level, technique, text, note[, ref])
HOOK_COMMITS = []
NOT_APPLICABLE = {}
NOTES = ("Exit codes: 0 held, 1 violated (VIOLATION lines), 2 inconclusive (a deciding monitor was not reached / "
         "harness error / watchdog) - exit 2 does not occur on the unchanged tree. Known findings: /verif/known_findings.json. "
         "VERIF_REPO=<dir> points every check at another working tree (used for the mutant audit).")
CLAIMED = {}
