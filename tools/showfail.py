#!/venv/bin/python
"""Debug helper: run one shard in-process and print the first failure whose mech contains a substring."""
import sys, os, json
sys.path.insert(0, os.path.dirname(os.path.dirname(os.path.abspath(__file__))))
from vf import core
prop, sub = sys.argv[1], sys.argv[2]
n = int(sys.argv[3]) if len(sys.argv) > 3 else 1
core.bootstrap(); core.private_tmp()
mod = core.load_prop(prop)
ctx = core.Ctx(prop, os.environ.get("VERIF_TIER", "quick"), int(os.environ.get("VERIF_SEED", 0)), int(os.environ.get("SHARD", 0)), int(os.environ.get("NSHARDS", 4)), 600)
orig = ctx.fail
seen = [0]
def fail(monitor, mech, witness, detail=""):
    if sub in mech or sub in monitor:
        print("MONITOR", monitor, "MECH", mech)
        print(json.dumps(core.jsonable(witness), indent=None)[:3000])
        print("DETAIL", str(detail)[-2500:])
        seen[0] += 1
        if seen[0] >= n:
            sys.exit(0)
    orig(monitor, mech, witness, detail)
ctx.fail = fail
mod.run(ctx)
print("no (more) failures matching", sub, "; seen", seen[0])
