#!/venv/bin/python
"""Intake of a seeded breaking change produced by an independent sub-agent.
usage: tools/seed_intake.py <PROP> <name> <agent-worktree> "<what it needs to manifest>" [CHECK ...]
Verifies (in a fresh scratch worktree of /repo HEAD): patch applies, the 587 tests pass with it, the demo exits !=0 with it
and 0 without it; then runs the quick checks (default: <PROP>) with VERIF_REPO pointing at the patched scratch tree and
records everything in /verif/seeded/<PROP>-<name>/{patch.diff, demo_break.py, meta.json}."""
import json, os, shutil, subprocess, sys, tempfile, time
ROOT = os.path.dirname(os.path.dirname(os.path.abspath(__file__)))
prop, name, awt, needs = sys.argv[1:5]
checks = sys.argv[5:] or [prop]
dest = os.path.join(ROOT, "seeded", "%s-%s" % (prop, name))
os.makedirs(dest, exist_ok=True)
diff = subprocess.check_output(["git", "-C", awt, "diff"], text=True)
assert diff.strip(), "empty diff"
open(os.path.join(dest, "patch.diff"), "w").write(diff)
shutil.copy(os.path.join(awt, "demo_break.py"), os.path.join(dest, "demo_break.py"))
wt = tempfile.mkdtemp(prefix="vf-seed-"); os.rmdir(wt)
subprocess.check_call(["git", "-C", "/repo", "worktree", "add", "-q", "--detach", wt, "HEAD"])
ran = []
def run(cmd, env=None, cwd=None, timeout=3600):
    td = tempfile.mkdtemp(prefix="vf-seed-tmp-")
    e = dict(os.environ, TMPDIR=td, PYTHONPATH=os.path.join(wt, "src"))
    e.update(env or {})
    t0 = time.time()
    r = subprocess.run(cmd, cwd=cwd or wt, env=e, capture_output=True, text=True, timeout=timeout)
    shutil.rmtree(td, ignore_errors=True)
    return r, time.time() - t0
try:
    demo = ["/venv/bin/python", "-W", "ignore", os.path.join(dest, "demo_break.py")]
    r0, _ = run(demo)
    ran.append({"cmd": "demo_break.py on unchanged HEAD", "rc": r0.returncode})
    subprocess.check_call(["git", "-C", wt, "apply", os.path.join(dest, "patch.diff")])
    r1, _ = run(demo)
    ran.append({"cmd": "demo_break.py with patch", "rc": r1.returncode, "tail": r1.stdout.strip().splitlines()[-3:]})
    t, dt = run(["/venv/bin/python", "-m", "pytest", "-q", "-p", "no:cacheprovider", "--timeout=900", "tests"])
    tests = t.stdout.strip().splitlines()[-1] if t.stdout.strip() else "?"
    ran.append({"cmd": "pytest tests (with patch)", "result": tests})
    results = {}
    for c in checks:
        r, dt = run([os.path.join(ROOT, "check"), c, "--tier", "quick"], env={"VERIF_REPO": wt, "PYTHONPATH": "", "VERIF_EVIDENCE_DIR": wt + "-ev"}, cwd=ROOT)
        mech = [ln.strip() for ln in r.stdout.splitlines() if ln.strip().startswith("monitor=")][:3]
        results[c] = {"exit": r.returncode, "verdict": {0: "MISSED", 1: "caught", 2: "inconclusive"}.get(r.returncode, "?"),
                      "wall_s": round(dt, 1), "first_mechanisms": mech}
        ran.append({"cmd": "VERIF_REPO=<patched tree> ./check %s --tier quick" % c, "rc": r.returncode})
    meta = {"property": prop, "name": name, "source": "independent sub-agent given only the property text and a scratch worktree",
            "needs_to_manifest": needs, "verified": {"demo_passes_without_patch": r0.returncode == 0, "demo_fails_with_patch": r1.returncode != 0,
            "test_suite_with_patch": tests}, "checks": checks, "check_results": results, "ran": ran,
            "repo_head": subprocess.check_output(["git", "-C", "/repo", "rev-parse", "--short", "HEAD"], text=True).strip()}
    json.dump(meta, open(os.path.join(dest, "meta.json"), "w"), indent=1)
    print(json.dumps({"verified": meta["verified"], "checks": results}, indent=1))
finally:
    subprocess.call(["git", "-C", "/repo", "worktree", "remove", "--force", wt])
    subprocess.call(["rm", "-rf", wt + "-ev"])
    pass  # evidence of /repo is untouched: audit runs write to VERIF_EVIDENCE_DIR
