#!/venv/bin/python
"""Regenerate /verif/MANIFEST.json from the table below (single source of truth)."""
import json, os
ROOT = os.path.dirname(os.path.dirname(os.path.abspath(__file__)))

# id -> (level, technique, level_text, level_note, design_ref)
CLAIMED = {
}
PENDING_REASON = "check under construction in this build phase (runtime monitor designed in DESIGN.md §3; not yet registered)"

props = [json.loads(l)["id"] for l in open(os.path.join(ROOT, "properties.jsonl"))]
exec(open(os.path.join(ROOT, "tools", "claimed.py")).read())
checks = []
for pid in props:
    if pid not in CLAIMED:
        continue
    c = CLAIMED[pid]
    checks.append({
        "property_id": pid,
        "quick_cmd": "./check %s --tier quick" % pid,
        "thorough_cmd": "./check %s --tier thorough" % pid,
        "evidence_file": "/verif/evidence/%s.json" % pid,
        "replay_cmd_template": "./check %s --replay {path}" % pid,
        "engine": "vf",
        "level_claimed": {"category": c["level"], "text": c["text"], "design_ref": c.get("ref", "DESIGN.md §3 " + pid)},
        "level_note": c["note"],
        "technique": c["technique"],
    })
na = [{"property_id": p, "reason": NOT_APPLICABLE.get(p, PENDING_REASON)} for p in props if p not in CLAIMED]
man = {
    "version": 1,
    "setup_cmd": "/venv/bin/python -c \"import sys; sys.path.insert(0,'/verif'); import vf.core, vf.findings; print('vf ok')\"",
    "hooks": {
        "guard": "WHOOSH_VERIF",
        "enable": "no source hooks: all instrumentation is installed from the harness (wrappers around whoosh classes, shadowed open/os globals of whoosh.filedb.filestore, sys.monitoring); checks import ${VERIF_REPO:-/repo}/src directly, nothing to build",
        "baseline_off_cmd": "cd /repo && /venv/bin/python -m pytest -ra -q -p no:cacheprovider --timeout=900 --continue-on-collection-errors tests",
        "source_commits": HOOK_COMMITS,
        "add_only": True,
    },
    "engines": [{"name": "vf", "path": "/verif/vf", "serves_properties": sorted(CLAIMED),
                 "kind_free_text": "runtime monitoring: seeded workload generators + reference-model / invariant / history-checking monitors over executions of the real code (pure Python, /venv/bin/python)"}],
    "checks": checks,
    "not_applicable": na,
    "notes": NOTES,
}
with open(os.path.join(ROOT, "MANIFEST.json"), "w") as f:
    json.dump(man, f, indent=1)
    f.write("\n")
print("claimed:", sorted(CLAIMED), "pending:", [x["property_id"] for x in na])
