#!/venv/bin/python
"""Print the prompt for a seeded-breakage sub-agent for property <ID> with worktree <dir>."""
import json, sys
pid, wt = sys.argv[1], sys.argv[2]
for l in open('/verif/properties.jsonl'):
    p = json.loads(l)
    if p['id'] == pid:
        break
print("""You are given a scratch git worktree of the Python full-text search library whoosh (mchaput/whoosh, pure Python) at %(wt)s. Work ONLY inside that directory (never touch /repo or /verif, and do not read anything under /verif). The interpreter is /venv/bin/python; run code against the worktree with PYTHONPATH=%(wt)s/src (this matters: otherwise another copy is imported). Run the existing test suite with a private temp dir:
  cd %(wt)s && T=$(mktemp -d) && TMPDIR=$T PYTHONPATH=%(wt)s/src /venv/bin/python -m pytest -q -p no:cacheprovider --timeout=900 tests; rm -rf $T
It currently gives 587 passed. There is no network.

Here is a semantic property that users of whoosh rely on:

  %(title)s
  %(statement)s
  (Scope: %(quant)s)

YOUR TASK: make a small, realistic change to the library source under %(wt)s/src/whoosh (the kind of mistake a maintainer could plausibly make in a refactoring, optimisation or bug fix: an off-by-one, a wrong comparison, a dropped guard, a stale cache, a reordered pair of steps, two sites that each look fine alone) that BREAKS this property while the code still imports and ALL 587 existing tests still pass. The breakage must need something specific to manifest — a particular interleaving, a crash or fault at a particular point, a multi-step sequence of operations, an unusual input or configuration, a specific data shape (e.g. several segments plus deletions, posting lists spanning several blocks, values at a threshold) — not something ordinary use would expose at once. Do not add dead flags, environment switches or obviously artificial code.

Deliver, all inside %(wt)s:
 1. the source change left UNCOMMITTED in the working tree (so that `git -C %(wt)s diff` shows exactly your change; do not commit);
 2. a demonstration script %(wt)s/demo_break.py (stand-alone, uses only the library, prints what it observes, exits 1 when the property is violated and 0 when it holds) that fails WITH your change and passes WITHOUT it — verify both yourself (to test without the change use `git diff > /tmp/<your-worktree-name>.patch; git apply -R /tmp/<...>.patch; <run>; git apply /tmp/<...>.patch` - do NOT use `git stash`: the stash is shared by all worktrees of the repository and other agents work in sibling worktrees);
 3. confirm the full test suite still passes with your change.
Final answer: (a) the diff, (b) one paragraph: what the change breaks and exactly what is needed for it to manifest, (c) the commands you ran and their outcomes (demo with change, demo without change, test suite).""" % dict(wt=wt, title=p['title'], statement=p['statement'], quant=p['quantifier']['text']))
