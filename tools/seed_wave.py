#!/venv/bin/python
"""Prepare a wave of seeded-breakage prompts: tools/seed_wave.py <tag> <ID> [<ID>...]
Creates a scratch worktree /tmp/<tag>-<ID> of /repo main and /tmp/<tag>-<ID>.prompt; earlier seeds of the same property
are named (file + one-line description) so that the new change uses a different mechanism."""
import glob, json, os, re, subprocess, sys
tag, ids = sys.argv[1], sys.argv[2:]
for pid in ids:
    wt = "/tmp/%s-%s" % (tag, pid)
    subprocess.check_call(["git", "-C", "/repo", "worktree", "add", "-q", "--detach", wt, "main"])
    prompt = subprocess.check_output(["/verif/tools/seed_prompt.py", pid, wt], text=True)
    earlier = []
    for f in sorted(glob.glob("/verif/seeded/%s-*/patch.diff" % pid)):
        files = sorted(set(re.findall(r"^\+\+\+ b/(\S+)", open(f).read(), re.M)))
        earlier.append("%s (%s)" % (os.path.basename(os.path.dirname(f))[len(pid) + 1:].replace("-", " "), ", ".join(files)))
    if earlier:
        note = ("YOUR TASK (note: earlier exercises already used these changes: " + "; ".join(earlier) +
                " - choose a DIFFERENT mechanism, preferably in a different file/function and a different layer of the library): ")
        prompt = prompt.replace("YOUR TASK: ", note)
    open(wt + ".prompt", "w").write(prompt)
    print(wt + ".prompt")
