#!/bin/sh
# usage: tools/sweep.sh <tier> <seeds...>   runs every registered check for each seed, evidence to a scratch dir; prints one line per run
tier=$1; shift
cd /verif
for s in "$@"; do
  for p in C01 C02 C03 C04 C05 C06 C07 C08 C09 C10 C11 C12 C13 C14 C15 C16 C17 C18 C19 C20; do
    out=$(VERIF_EVIDENCE_DIR=/tmp/vf-sweep-ev VERIF_SEED=$s ./check $p --tier $tier 2>&1)
    rc=$?
    echo "seed=$s rc=$rc $(echo "$out" | grep -m1 'verdict=' | cut -c1-110)"
    if [ $rc -ne 0 ]; then echo "$out" | grep -A3 "VIOLATION\|INCONCLUSIVE" | cut -c1-400 | head -12; fi
  done
done
rm -rf /tmp/vf-sweep-ev
