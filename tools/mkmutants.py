#!/venv/bin/python
"""Generate /verif/mutants/<ID>-<name>.patch files from (file, old, new) edit descriptions, as git diffs
against /repo HEAD. Run by hand; the audit (tools/mutant_audit.py) applies them to scratch worktrees."""
import os, subprocess, sys, tempfile, shutil
ROOT = os.path.dirname(os.path.dirname(os.path.abspath(__file__)))
M = []
def mut(pid, name, path, old, new, count=1):
    M.append((pid, name, path, old, new, count))

B = "src/whoosh/matching/binary.py"
W = "src/whoosh/matching/wrappers.py"
# ---- C01
mut("C01", "reader-postings-keeps-deleted", "src/whoosh/reading.py",
    "        deleted = self.deleted_docs_set\n        if deleted:\n            matcher = FilterMatcher(matcher, deleted, exclude=True)",
    "        deleted = self.deleted_docs_set\n        if deleted and len(deleted) > 1:\n            matcher = FilterMatcher(matcher, deleted, exclude=True)")
mut("C01", "union-next-tie-advances-a-only", B,
    "        if a_id <= b_id:\n            ar = a.next()\n        if b_id <= a_id:\n            br = b.next()",
    "        if a_id <= b_id:\n            ar = a.next()\n        if b_id < a_id:\n            br = b.next()")
mut("C01", "phrase-slop-off-by-one", "src/whoosh/query/spans.py",
    "                        dist = aspan.distance_to(bspan)\n                        if mindist <= dist <= slop:\n                            spans.add(aspan.to(bspan))\n                aspans = sorted(spans)",
    "                        dist = aspan.distance_to(bspan)\n                        if mindist <= dist < max(slop, 2):\n                            spans.add(aspan.to(bspan))\n                aspans = sorted(spans)")
mut("C01", "termrange-endexcl-ignored", "src/whoosh/query/ranges.py",
    "            if t == end and endexcl:\n                break",
    "            if t == end and endexcl and len(t) > 4:\n                break")
mut("C01", "inverse-skips-doc-after-child-match", W,
    "                if self._id == child.id():\n                    self._id += 1\n                    child.next()\n                    continue",
    "                if self._id == child.id():\n                    self._id += 2\n                    child.next()\n                    continue")
# ---- C05
mut("C05", "topcollector-accepts-ties", "src/whoosh/collectors.py",
    "        elif score > items[0][0]:", "        elif score >= items[0][0]:")
mut("C05", "topcollector-heap-without-negated-docnum", "src/whoosh/collectors.py",
    "            heappush(items, (score, 0 - global_docnum))", "            heappush(items, (score, global_docnum - 100000))")
mut("C05", "leaf-skips-blocks-equal-or-slightly-better", "src/whoosh/codec/whoosh3.py",
    "        return self._skip_to_block(lambda: block_quality() <= minquality)",
    "        return self._skip_to_block(lambda: block_quality() <= minquality * 1.15)")
mut("C05", "union-replace-andmaybe-wrong-side", B,
    "            elif a_max <= minquality:\n                return AndMaybeMatcher(b, a)",
    "            elif a_max <= minquality:\n                return AndMaybeMatcher(a, b)")
mut("C05", "intersection-skip-uses-current-block-of-other", B,
    "            a_min = minquality - b.max_quality()\n            b_min = minquality - a.max_quality()\n            if aq <= a_min:\n                sk = a.skip_to_quality(a_min)\n            elif bq <= b_min:\n                sk = b.skip_to_quality(b_min)\n            else:\n                sk = 0\n            if not sk:\n                break\n            skipped += sk\n\n            if not a.is_active() or not b.is_active():",
    "            a_min = minquality - bq\n            b_min = minquality - aq\n            if aq <= a_min:\n                sk = a.skip_to_quality(a_min)\n            elif bq <= b_min:\n                sk = b.skip_to_quality(b_min)\n            else:\n                sk = 0\n            if not sk:\n                break\n            skipped += sk\n\n            if not a.is_active() or not b.is_active():")
# ---- C09
mut("C09", "bm25f-segment-local-avgfl", "src/whoosh/scoring.py",
    "        self.avgfl = parent.avg_field_length(fieldname) or 1\n\n        self.B = B",
    "        self.avgfl = searcher.avg_field_length(fieldname) or 1\n\n        self.B = B")
mut("C09", "wrapping-boost-applied-twice", W,
    "    def score(self):\n        return self.child.score() * self.boost\n\n\nclass MultiMatcher",
    "    def score(self):\n        return self.child.score() * self.boost * self.boost\n\n\nclass MultiMatcher")
mut("C09", "union-adds-stale-score-of-later-child", B,
    "        id_a = a.id()\n        id_b = b.id()\n        if id_a < id_b:\n            return a.score()\n        elif id_b < id_a:\n            return b.score()\n        else:\n            return (a.score() + b.score())\n\n    def skip_to_quality",
    "        id_a = a.id()\n        id_b = b.id()\n        if id_a < id_b:\n            return a.score()\n        elif id_b < id_a - 1:\n            return b.score()\n        else:\n            return (a.score() + b.score())\n\n    def skip_to_quality")
mut("C09", "idf-uses-live-doc-count", "src/whoosh/scoring.py",
    "        dc = parent.doc_count_all()\n        return log(dc / (n + 1)) + 1",
    "        dc = parent.doc_count()\n        return log(dc / (n + 1)) + 1")
mut("C09", "andmaybe-ignores-optional-when-first-in-block", B,
    "        if self.b.is_active() and self.a.id() == self.b.id():\n            return self.a.score() + self.b.score()\n        else:\n            return self.a.score()",
    "        if self.b.is_active() and self.a.id() == self.b.id() and self.a.id() % 7:\n            return self.a.score() + self.b.score()\n        else:\n            return self.a.score()")
# ---- C11
mut("C11", "listmatcher-skip_to-passes-equal-id", "src/whoosh/matching/mcore.py",
    "        while self._i < len(self._ids) and self._ids[self._i] < id:\n            self._i += 1",
    "        while self._i < len(self._ids) and self._ids[self._i] <= id:\n            self._i += 1")
mut("C11", "intersection-next-no-resync", B,
    "        ar = self.a.next()\n        if self.is_active():\n            nr = self._find_next()\n            return ar or nr",
    "        ar = self.a.next()\n        if self.is_active() and self.a.id() % 5:\n            nr = self._find_next()\n            return ar or nr")
mut("C11", "leaf-copy-shares-position-after-block-change", "src/whoosh/codec/whoosh3.py",
    "        m = object.__new__(self.__class__)\n        m.__dict__.update(self.__dict__)\n        return m",
    "        m = object.__new__(self.__class__)\n        m.__dict__ = self.__dict__ if self._lastblock else dict(self.__dict__)\n        return m")
mut("C11", "multimatcher-skip_to-forgets-offset", W,
    "            sr = mr.skip_to(id - offsets[self.current])",
    "            sr = mr.skip_to(id - offsets[max(0, self.current - 1)])")
mut("C11", "andnot-reset-skips-first-alignment", B,
    "    def reset(self):\n        self.a.reset()\n        self.b.reset()\n        self._find_first()\n\n    def _find_first(self):\n        # _find_next() first catches",
    "    def reset(self):\n        self.a.reset()\n        self.b.reset()\n\n    def _find_first(self):\n        # _find_next() first catches")
# ---- C12
mut("C12", "wrapping-block_quality-ignores-boost", W,
    "    def block_quality(self):\n        return self.child.block_quality() * self.boost\n\n    def weight(self):\n        return self.child.weight() * self.boost",
    "    def block_quality(self):\n        return self.child.block_quality()\n\n    def weight(self):\n        return self.child.weight() * self.boost")
mut("C12", "leaf-bound-uses-max-length", "src/whoosh/scoring.py",
    "        return self._score(matcher.block_max_weight(),\n                           matcher.block_min_length())",
    "        return self._score(matcher.block_max_weight(),\n                           matcher.block_max_length())")
mut("C12", "additive-max_quality-drops-b", B,
    "        if self.b.is_active():\n            q += self.b.max_quality()\n        return q",
    "        if self.b.is_active() and False:\n            q += self.b.max_quality()\n        return q")
mut("C12", "terminfo-maxweight-not-accumulated-over-blocks", "src/whoosh/codec/whoosh3.py",
    "        self._maxweight = max(self._maxweight, block.max_weight())",
    "        self._maxweight = block.max_weight()", count=None)
mut("C12", "dismax-replace-drops-b-on-tie", B,
    "            elif b_max < minquality:\n                # If the b matcher can't contribute, return a\n                return a.replace(minquality)",
    "            elif b_max <= a_max:\n                # If the b matcher can't contribute, return a\n                return a.replace(minquality)")

# ---- regenerated against the integrated tree (the agents' original patches no longer applied)
mut("C02", "cancel-deletes-by-index-prefix", "src/whoosh/writing.py",
    "        self.schema._dyn_fields = dict(dynfields)\n        self._close_segment()\n        self._finish()\n",
    "        self.schema._dyn_fields = dict(dynfields)\n        self._close_segment()\n        # remove the files of the abandoned segment\n        prefix = \"%s_\" % self.indexname\n        for name in self.storage.list():\n            if name.startswith(prefix) and not name.endswith(\"LOCK\"):\n                self.storage.delete_file(name)\n        self._finish()\n")
mut("C08", "override-not-in-column", "src/whoosh/writing.py",
    "            cv = field.to_column_value(customval) if has_cv else None",
    "            cv = field.to_column_value(value) if has_cv else None")
mut("C18", "buffered-close-drops-buffer", "src/whoosh/writing.py",
    "    def close(self):\n        self.commit(restart=False)\n",
    "    def close(self):\n        if self.period:\n            self.timer.cancel()\n        self.writer.commit(**self.commitargs)\n")
mut("C19", "fuzzy-ignores-prefix", "src/whoosh/query/terms.py",
    "        for word in ixreader.terms_within(self.fieldname, self.text,\n                                          self.maxdist,\n                                          prefix=self.prefixlength):",
    "        for word in ixreader.terms_within(self.fieldname, self.text,\n                                          self.maxdist):")

def main():
    only = sys.argv[1:] 
    wt = tempfile.mkdtemp(prefix="vf-mkmut-")
    os.rmdir(wt)
    subprocess.check_call(["git", "-C", "/repo", "worktree", "add", "-q", "--detach", wt, "HEAD"])
    try:
        for pid, name, path, old, new, count in M:
            if only and pid not in only:
                continue
            fp = os.path.join(wt, path)
            s = open(fp).read()
            n = s.count(old)
            if n == 0 or (count is not None and n != count):
                print("!! %s-%s: pattern occurs %d times in %s" % (pid, name, n, path))
                continue
            open(fp, "w").write(s.replace(old, new, 1) if count is None else s.replace(old, new))
            diff = subprocess.check_output(["git", "-C", wt, "diff"], text=True)
            subprocess.check_call(["git", "-C", wt, "checkout", "-q", "--", "."])
            out = os.path.join(ROOT, "mutants", "%s-%s.patch" % (pid, name))
            open(out, "w").write(diff)
            print("ok", os.path.basename(out))
    finally:
        subprocess.call(["git", "-C", "/repo", "worktree", "remove", "--force", wt])
main()
