#!/bin/sh
# usage: tools/integrate_agent.sh <branch>   cherry-picks the branch's own fix: commits (no merges, not already on main) into /repo main
b=$1
cd /repo || exit 1
for h in $(git log --reverse --no-merges --format=%h main..$b); do
  s=$(git log -1 --format=%s $h)
  case "$s" in fix:*) ;; *) echo "SKIP (not fix:) $h $s"; continue;; esac
  # skip if an identical subject is already on main (cherry-picked earlier / lead's own fix merged into the branch)
  if grep -Fq "$(echo "$s" | cut -c1-75)" /verif/tools/skip_subjects.txt; then echo "DUP-SKIP $h $s" | cut -c1-120; continue; fi
  if git log main --format=%s | grep -Fxq "$s"; then echo "HAVE $h $s" | cut -c1-120; continue; fi
  if git cherry-pick -x $h >/dev/null 2>&1; then echo "PICK $h $s" | cut -c1-140; else
    if git diff --cached --quiet && git diff --quiet; then git cherry-pick --skip >/dev/null 2>&1; echo "EMPTY $h $s" | cut -c1-120; else
      echo "CONFLICT $h $s"; git status --short | head; exit 1; fi
  fi
done
